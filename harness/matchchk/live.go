package matchchk

import (
	"fmt"
	"math/rand"
	"os"
	"path/filepath"
	"strings"
	"time"

	"verif/harness/tty"
	"verif/harness/vk"
)

// Phase (5) of C13: the whole program under the race detector. The in-process phases drive the real
// ChunkList / Matcher with the harness as loader; here the real Reader, the real coordinator loop and
// the terminal run as well: fzf built with -race reads from a slow producer while queries are typed,
// the sort order is toggled, items are excluded and the input is reloaded. Race reports whose stacks
// lie in the loader / matcher / cache / event-box code are violations (classified against the listed
// findings); reports elsewhere in fzf (terminal, previewer) are outside this property and are counted
// and quoted in the evidence.

func init() { vk.RegisterWorker("c13live", workerLive) }

var scopeFiles = []string{"/chunklist.go", "/matcher.go", "/cache.go", "/reader.go", "/eventbox.go", "/atomicbool.go", "/pattern.go", "/merger.go", "/result.go", "/item.go", "/algo/algo.go", "/util/chars.go", "/util/slab.go", "/tokenizer.go"}

func inScope(blk string) bool {
	for _, l := range strings.Split(blk, "\n") {
		l = strings.TrimSpace(l)
		if !strings.HasPrefix(l, "/") || !strings.Contains(l, "/src/") {
			continue
		}
		for _, f := range scopeFiles {
			if strings.Contains(l, "/src"+f+":") || strings.Contains(l, f+":") && strings.Contains(l, "/src/") {
				return true
			}
		}
	}
	return false
}

func workerLive(r *vk.Run, w, n int, args []string) {
	rng := rand.New(rand.NewSource(r.Seed*9176 + int64(w)*211 + 6))
	sessions := 16
	if !r.Quick() {
		sessions = 160
	}
	per := (sessions + n - 1) / n
	for i := 0; i < per; i++ {
		liveRace(r, rng, w, i)
	}
}

func liveRace(r *vk.Run, rng *rand.Rand, w, idx int) {
	size := []int{3000, 8000, 20000}[rng.Intn(3)]
	in := filepath.Join(vk.Scratch(), fmt.Sprintf("c13live-%d-%d-%d", os.Getpid(), w, idx))
	var sb strings.Builder
	for i := 0; i < size; i++ {
		sb.WriteString(ItemText(i))
		sb.WriteByte('\n')
	}
	os.WriteFile(in, []byte(sb.String()), 0o644)
	defer os.Remove(in)
	fzfArgs := []string{"--multi", "--no-mouse"}
	if rng.Intn(3) == 0 {
		fzfArgs = append(fzfArgs, fmt.Sprintf("--tail=%d", []int{50, 250, 1000}[rng.Intn(3)]))
	}
	if rng.Intn(4) == 0 {
		fzfArgs = append(fzfArgs, "--no-sort")
	}
	if rng.Intn(4) == 0 {
		fzfArgs = append(fzfArgs, "--tac")
	}
	if rng.Intn(4) == 0 {
		fzfArgs = append(fzfArgs, "--nth", "2")
	}
	cmd := fmt.Sprintf("awk '{print} NR%%%d==0 {system(\"sleep 0.02\")}' '%s'", 1+size/40, in)
	s, err := tty.Start(tty.StartOpts{Args: fzfArgs, InputCmd: cmd, Cols: 100, Rows: 30, Race: true, Seed: r.Seed,
		Points: []string{"", "scan.chunk=10.0%:sleep(1)", "matcher.publish=sleep(5)"}[rng.Intn(3)]})
	if err != nil {
		r.Inconclusive("start (race build): " + err.Error())
		if s != nil {
			s.Close()
		}
		return
	}
	defer s.Close()
	var hist []string
	steps := 25 + rng.Intn(25)
	for k := 0; k < steps; k++ {
		var a string
		switch c := rng.Intn(12); {
		case c < 5:
			a = "put(" + []string{"a", "b", "c", "x", "0", "1", " ", "'ab", "!x"}[rng.Intn(9)] + ")"
		case c < 7:
			a = "backward-delete-char"
		case c < 8:
			a = "change-query(" + Queries[rng.Intn(len(Queries))] + ")"
		case c < 9:
			a = "toggle-sort"
		case c < 10:
			a = "exclude"
		case c < 11:
			a = "down+toggle"
		default:
			a = "reload(" + cmd + ")"
		}
		if code, err := s.Post(a); err != nil || code != 200 {
			if _, exited := s.ExitCode(); exited {
				break
			}
			continue
		}
		hist = append(hist, a)
		time.Sleep(time.Duration(rng.Intn(60)) * time.Millisecond)
	}
	st, ok := s.WaitQuiescent(90 * time.Second)
	r.Eval(1)
	r.Count("race_sessions", 1)
	if ok {
		r.Count("race_sessions_quiescent", 1)
		if st.MatchCount != len(st.Matches) {
			r.Violate(vk.Violation{Summary: fmt.Sprintf("C13: matchCount %d does not describe the list (%d entries)", st.MatchCount, len(st.Matches)), Witness: map[string]any{"history": hist, "fzf_args": fzfArgs}})
		}
	} else if _, exited := s.ExitCode(); exited {
		r.Violate(vk.Violation{Summary: "C13: fzf (race build) exited during the session: " + clipN(s.Stderr(), 600), Witness: map[string]any{"history": hist, "fzf_args": fzfArgs}})
		return
	}
	s.PostNoCount("abort")
	s.WaitExit(30 * time.Second)
	rep := s.RaceReports()
	seen := map[string]bool{}
	for _, blk := range strings.Split(rep, "==================") {
		if !strings.Contains(blk, "WARNING: DATA RACE") {
			continue
		}
		r.Count("race_reports_total", 1)
		sum := raceSummary(blk)
		if !inScope(blk) {
			r.Count("race_reports_outside_scope", 1)
			if !seen[sum] {
				seen[sum] = true
				r.Distinct("race outside scope: " + sum)
				r.Extra("race_outside_scope: "+sum, clipN(blk, 1500))
			}
			continue
		}
		r.Count("race_reports_in_fzf_code", 1)
		key := raceKey(blk)
		if !seen[key+sum] {
			seen[key+sum] = true
			r.Violate(vk.Violation{Key: key, Summary: "C13: data race reported in the running program (loader / matcher / cache code): " + sum, Witness: map[string]any{"report": blk, "history": hist, "fzf_args": fzfArgs}})
		}
	}
	r.Distinct(fmt.Sprintf("race-session n%d %v", size, fzfArgs[2:]))
}

func clipN(s string, n int) string {
	if len(s) > n {
		return s[:n] + "..."
	}
	return s
}

package algochk

import (
	"fmt"
	"unicode"

	"github.com/junegunn/fzf/src/algo"
	"github.com/junegunn/fzf/src/util"
)

func isSpaceRune(r rune) bool { return unicode.IsSpace(r) }
func isUpper(r rune) bool     { return unicode.IsUpper(r) }

// ---------------------------------------------------------------- C03 scores

func (c *checker) score(m int, k Case, text, folded, pat []rune, B []int, got outcome, slab *util.Slab, heavy bool) {
	N, M := len(text), len(pat)
	res := got.res
	if M == 0 || res.Start < 0 {
		return
	}
	if res.Start > res.End || res.End > N {
		return // C02's business
	}
	sch := c.scheme
	switch m {
	case mV2:
		// Domain in which fzf itself runs V2: N*M within the slab capacity;
		// with a slab and a larger product V2 delegates to V1 (oracle C).
		if slab != nil && N*M > cap(slab.I16) {
			c.linear(m, k, folded, pat, B, got)
			c.r.Count("v2_delegated_to_v1", 1)
			return
		}
		if N*M > 102400 {
			return // outside the domain (int16 scores are only guaranteed inside it)
		}
		ok, ref, refEnd := RefV2(sch, text, folded, pat, k.Fwd)
		if !ok {
			return // C02's business
		}
		c.r.Count("v2_scores_compared", 1)
		c.r.Distinct(fmt.Sprintf("v2 N%d M%d s%d %s f%v", bucket(N), M, bucketScore(ref), sch.Name, k.Fwd))
		if res.Score != ref {
			key := ""
			if M == 1 && k.Fwd && res.Score < ref && isF7(folded, pat, B, res) {
				key = "F7-v2-single-char-early-exit"
			}
			c.violate(key, fmt.Sprintf("V2 score %d differs from the unoptimised evaluation %d", res.Score, ref), k, got, map[string]any{"reference_score": ref, "reference_end": refEnd})
		} else if res.End != refEnd {
			c.violate("", fmt.Sprintf("V2 end %d differs from the reference end %d (same score)", res.End, refEnd), k, got, map[string]any{"reference_score": ref, "reference_end": refEnd})
		}
		if heavy && N <= 14 && M <= 4 {
			best, found := BestPath(B, folded, pat)
			c.r.Count("v2_upper_bound_checked", 1)
			if found && res.Score > best {
				c.violate("", fmt.Sprintf("V2 score %d exceeds the best existing alignment %d", res.Score, best), k, got, map[string]any{"best_alignment": best})
			}
			if found && res.Score < best {
				c.r.Count("v2_below_best_path", 1)
			}
		}
	case mV1:
		c.linear(m, k, folded, pat, B, got)
	case mExact, mPrefix, mSuffix:
		c.linear(m, k, folded, pat, B, got)
	case mEqual:
		exp := (16+sch.BoundaryWhite)*M + sch.BoundaryWhite
		c.r.Count("equal_scores_compared", 1)
		if res.Score != exp {
			c.violate("", fmt.Sprintf("equal-match score %d differs from the closed form %d", res.Score, exp), k, got, nil)
		}
	case mBoundary:
		// boundary terms: base 16*M + white*(M+1) plus the bonus of the occurrence's
		// first character, with the documented underscore deductions
		if res.End-res.Start != M {
			return
		}
		b := bonusAtRef(sch, text, res.Start)
		score := b
		deduct := (b - 8) + 1
		if res.Start > 0 && text[res.Start-1] == '_' {
			score -= deduct + 1
			deduct = 1
		}
		if res.End < N && text[res.End] == '_' {
			score -= deduct
		}
		score += 16*M + sch.BoundaryWhite*(M+1)
		c.r.Count("boundary_scores_compared", 1)
		if res.Score != score {
			c.violate("", fmt.Sprintf("boundary-match score %d differs from the closed form %d", res.Score, score), k, got, nil)
		}
	}
}

// bonusAtRef: bonus of position idx as the exact matchers see it (line start counts as white).
func bonusAtRef(s *Scheme, text []rune, idx int) int {
	if idx == 0 {
		return s.BoundaryWhite
	}
	return s.bonus(s.class(text[idx-1]), s.class(text[idx]))
}

func (c *checker) linear(m int, k Case, folded, pat []rune, B []int, got outcome) {
	res := got.res
	sc, pos, complete := GreedyLinear(B, folded, pat, res.Start, res.End)
	if !complete {
		return // no witness in range: C02's business
	}
	c.r.Count("linear_scores_compared", 1)
	c.r.Distinct(fmt.Sprintf("%s N%d M%d s%d %s", matcherNames[m], bucket(len(folded)), len(pat), bucketScore(sc), k.Scheme))
	if res.Score != sc {
		c.violate("", fmt.Sprintf("%s score %d differs from the linear evaluation %d of the reported occurrence", matcherNames[m], res.Score, sc), k, got, map[string]any{"reference_positions": pos})
	}
}

func bucketScore(s int) int {
	if s < 200 {
		return s
	}
	return 200 + s/100
}

// isF7: the forward single-character fast path stops at the first occurrence
// whose bonus reaches the boundary bonus; the returned score is that occurrence's.
func isF7(folded, pat []rune, B []int, res algo.Result) bool {
	p := res.Start
	if p < 0 || p >= len(folded) || folded[p] != pat[0] || B[p] < 8 || res.Score != 16+2*B[p] {
		return false
	}
	for j := 0; j < p; j++ {
		if folded[j] == pat[0] && B[j] >= 8 {
			return false
		}
	}
	return true
}

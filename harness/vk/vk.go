// Package vk is the verdict / evidence kit shared by all checks: it collects
// what the monitors observed, applies the known-findings file, writes replay
// witnesses and the evidence file, and decides the exit status.
package vk

import (
	"encoding/json"
	"fmt"
	"os"
	"path/filepath"
	"sort"
	"strconv"
	"strings"
	"sync"
	"time"
)

// VerifDir is where MANIFEST.json, evidence/, replay/ and known_findings.json live.
func VerifDir() string {
	if d := os.Getenv("VERIF_DIR"); d != "" {
		return d
	}
	return "/verif"
}

// Finding is one entry of known_findings.json.
type Finding struct {
	Property string `json:"property"`
	Key      string `json:"key"`
	Kind     string `json:"kind"` // "known" or "fixed"
	Commit   string `json:"commit,omitempty"`
	What     string `json:"what"`
}

type findingsFile struct {
	Findings []Finding `json:"findings"`
}

// Violation is a refuting observation.
type Violation struct {
	Key     string `json:"key"`     // classifier key ("" = unclassified); matched against known findings
	Summary string `json:"summary"` // one line
	Witness any    `json:"witness"` // inputs, options, history, observed vs expected
}

// Run accumulates one check invocation.
type Run struct {
	mu           sync.Mutex
	ID           string
	Tier         string
	Seed         int64
	Level        string
	Rule         string
	Assumptions  []string
	start        time.Time
	evaluations  int64
	distinct     map[uint64]struct{} // 64-bit hashes of the signatures (bounded memory)
	distinctFull bool
	worker       bool
	grpCount     map[string]int
	dropped      map[string]int64
	samples      []any
	maxSamples   int
	counters     map[string]int64
	violations   []Violation
	known        map[string]int
	knownWhat    map[string]string
	inconclusive int64
	inconcNotes  []string
	extra        map[string]any
	findings     []Finding
	floors       map[string]int64
}

// New starts a run; tier and seed come from the command line / environment.
func New(id, tier string) *Run {
	seed := int64(1)
	if s := os.Getenv("VERIF_SEED"); s != "" {
		if v, err := strconv.ParseInt(s, 10, 64); err == nil {
			seed = v
		}
	}
	r := &Run{ID: id, Tier: tier, Seed: seed, Level: "exploration", start: time.Now(),
		distinct: map[uint64]struct{}{}, counters: map[string]int64{}, known: map[string]int{},
		knownWhat: map[string]string{}, extra: map[string]any{}, maxSamples: 6, floors: map[string]int64{}}
	data, err := os.ReadFile(filepath.Join(VerifDir(), "known_findings.json"))
	if err == nil {
		var ff findingsFile
		if err := json.Unmarshal(data, &ff); err == nil {
			r.findings = ff.Findings
		} else {
			fmt.Fprintf(os.Stderr, "known_findings.json unreadable: %v\n", err)
		}
	}
	return r
}

func (r *Run) Quick() bool { return r.Tier != "thorough" }

// Pick returns q in the quick tier and t in the thorough tier.
func (r *Run) Pick(q, t int) int {
	if r.Quick() {
		return q
	}
	return t
}

func (r *Run) Eval(n int64) {
	r.mu.Lock()
	r.evaluations += n
	r.mu.Unlock()
}

// Distinct records a non-trivial case signature.
// Distinct records a signature. Only a 64-bit hash is kept, and at most maxDistinct of them per
// process: beyond that the reported number is a lower bound (evidence says so).
func (r *Run) Distinct(sig string) {
	h := uint64(14695981039346656037)
	for i := 0; i < len(sig); i++ {
		h ^= uint64(sig[i])
		h *= 1099511628211
	}
	r.distinctHash(h)
}

const maxDistinct = 3000000

func (r *Run) distinctHash(h uint64) {
	r.mu.Lock()
	if len(r.distinct) < maxDistinct {
		r.distinct[h] = struct{}{}
	} else if _, ok := r.distinct[h]; !ok {
		r.distinctFull = true
	}
	r.mu.Unlock()
}

func (r *Run) Count(name string, n int64) {
	r.mu.Lock()
	r.counters[name] += n
	r.mu.Unlock()
}

func (r *Run) Counter(name string) int64 {
	r.mu.Lock()
	defer r.mu.Unlock()
	return r.counters[name]
}

// Floor demands that counter name reaches at least n, else the run fails as "observed nothing".
func (r *Run) Floor(name string, n int64) {
	r.mu.Lock()
	r.floors[name] = n
	r.mu.Unlock()
}

func (r *Run) Sample(s any) {
	r.mu.Lock()
	if len(r.samples) < r.maxSamples {
		r.samples = append(r.samples, s)
	}
	r.mu.Unlock()
}

func (r *Run) Extra(k string, v any) {
	r.mu.Lock()
	r.extra[k] = v
	r.mu.Unlock()
}

func (r *Run) Inconclusive(note string) {
	r.mu.Lock()
	r.inconclusive++
	if len(r.inconcNotes) < 10 {
		r.inconcNotes = append(r.inconcNotes, note)
	}
	r.mu.Unlock()
}

// Violate records a violation. If key names a "known" finding of this property it
// is reported as KNOWN-FINDING instead and does not fail the run.
func (r *Run) Violate(v Violation) {
	r.mu.Lock()
	defer r.mu.Unlock()
	if v.Key != "" {
		for _, f := range r.findings {
			if f.Kind == "known" && f.Property == r.ID && f.Key == v.Key {
				r.known[v.Key]++
				r.knownWhat[v.Key] = f.What
				if r.known[v.Key] <= 3 {
					r.extraAppend("known_finding_witnesses", map[string]any{"key": v.Key, "summary": v.Summary, "witness": v.Witness})
				}
				return
			}
		}
	}
	// memory bound: a worker keeps the first few witnesses of every group (classifier key + start of the
	// summary) and only counts the rest - a listed finding can occur millions of times in a thorough run
	if r.worker {
		grp := v.Key + "|" + v.Summary
		if len(grp) > len(v.Key)+45 {
			grp = grp[:len(v.Key)+45]
		}
		if r.grpCount == nil {
			r.grpCount, r.dropped = map[string]int{}, map[string]int64{}
		}
		r.grpCount[grp]++
		if r.grpCount[grp] > 6 {
			r.dropped[v.Key]++
			return
		}
	}
	r.violations = append(r.violations, v)
}

func (r *Run) extraAppend(k string, v any) {
	l, _ := r.extra[k].([]any)
	r.extra[k] = append(l, v)
}

func (r *Run) NumViolations() int {
	r.mu.Lock()
	defer r.mu.Unlock()
	return len(r.violations)
}

// Finish writes evidence and replay files, prints the verdict lines and returns the exit code.
func (r *Run) Finish() int {
	r.mu.Lock()
	defer r.mu.Unlock()
	wall := time.Since(r.start).Seconds()
	vd := VerifDir()
	evDir := filepath.Join(vd, "evidence")
	if d := os.Getenv("VERIF_EVIDENCE_DIR"); d != "" {
		evDir = d // seeded-change runs keep their evidence away from the committed files
	}
	os.MkdirAll(evDir, 0o755)
	os.MkdirAll(filepath.Join(vd, "replay"), 0o755)

	// witnesses of earlier runs of this property are stale
	if old, _ := filepath.Glob(filepath.Join(vd, "replay", r.ID+"-*.json")); len(old) > 0 {
		for _, f := range old {
			os.Remove(f)
		}
	}
	exit := 0
	// known findings
	keys := make([]string, 0, len(r.known))
	for k := range r.known {
		keys = append(keys, k)
	}
	sort.Strings(keys)
	for _, k := range keys {
		fmt.Printf("KNOWN-FINDING: property=%s %s: %s (seen %d times this run)\n", r.ID, k, r.knownWhat[k], r.known[k])
	}
	// violations
	byKey := map[string]int{}
	for i, v := range r.violations {
		grp := v.Key + "|" + v.Summary
		if len(grp) > len(v.Key)+45 {
			grp = grp[:len(v.Key)+45]
		}
		byKey[grp]++
		if byKey[grp] > 3 || i >= 400 && byKey[grp] > 1 {
			continue // witness files are capped; all are counted
		}
		name := fmt.Sprintf("%s-%d-%d.json", r.ID, r.Seed, i)
		path := filepath.Join(vd, "replay", name)
		data, _ := json.MarshalIndent(map[string]any{"property": r.ID, "tier": r.Tier, "seed": r.Seed,
			"key": v.Key, "summary": v.Summary, "witness": v.Witness}, "", " ")
		os.WriteFile(path, data, 0o644)
		fmt.Printf("VIOLATION property=%s replay=%s\n", r.ID, path)
		fmt.Printf("  %s\n", oneLine(v.Summary, 400))
		exit = 1
	}
	if len(r.violations) > 0 {
		exit = 1
		groups := map[string]int{}
		for _, v := range r.violations {
			g := v.Summary
			if i := strings.Index(g, " matcher="); i > 0 {
				j := strings.Index(g[i+1:], " ")
				if j > 0 {
					g = g[:i+1+j]
				}
			} else if len(g) > 90 {
				g = g[:90]
			}
			groups[v.Key+"|"+g]++
		}
		gk := make([]string, 0, len(groups))
		for k := range groups {
			gk = append(gk, k)
		}
		sort.Strings(gk)
		for i, k := range gk {
			if i >= 30 {
				break
			}
			fmt.Printf("  group %6d x %s\n", groups[k], k)
		}
	}
	// floors: a monitor that observed nothing must not pass
	var floorFail []string
	for name, n := range r.floors {
		if r.counters[name] < n {
			floorFail = append(floorFail, fmt.Sprintf("%s=%d<%d", name, r.counters[name], n))
		}
	}
	sort.Strings(floorFail)
	if len(floorFail) > 0 && exit == 0 {
		fmt.Printf("INCONCLUSIVE property=%s monitors observed too little: %s\n", r.ID, strings.Join(floorFail, " "))
		exit = 3
	}

	cov := map[string]any{
		"evaluations":             r.evaluations,
		"distinct_nontrivial":     len(r.distinct),
		"rule":                    r.Rule,
		"distinct_is_lower_bound": r.distinctFull,
		"samples":                 r.samples,
		"counters":                r.counters,
		"inconclusive":            r.inconclusive,
	}
	if len(r.inconcNotes) > 0 {
		cov["inconclusive_notes"] = r.inconcNotes
	}
	if len(r.known) > 0 {
		cov["known_findings_seen"] = r.known
	}
	for k, v := range r.extra {
		cov[k] = v
	}
	if len(r.samples) == 0 {
		cov["samples"] = []any{"(none recorded)"}
	}
	ev := map[string]any{
		"property_id": r.ID,
		"tier":        r.Tier,
		"seed":        r.Seed,
		"level":       r.Level,
		"coverage":    cov,
		"assumptions": r.Assumptions,
		"wall_s":      float64(int(wall*100)) / 100,
		"violations":  len(r.violations),
	}
	if ev["assumptions"] == nil || len(r.Assumptions) == 0 {
		ev["assumptions"] = []string{}
	}
	data, _ := json.MarshalIndent(ev, "", " ")
	if err := os.WriteFile(filepath.Join(evDir, r.ID+".json"), data, 0o644); err != nil {
		fmt.Fprintf(os.Stderr, "cannot write evidence: %v\n", err)
		if exit == 0 {
			exit = 3
		}
	}
	verdict := "HELD"
	if exit == 1 {
		verdict = "VIOLATED"
	} else if exit != 0 {
		verdict = "INCONCLUSIVE"
	}
	fmt.Printf("%s property=%s tier=%s seed=%d evaluations=%d distinct=%d violations=%d known=%d inconclusive=%d wall=%.1fs\n",
		verdict, r.ID, r.Tier, r.Seed, r.evaluations, len(r.distinct), len(r.violations), len(r.known), r.inconclusive, wall)
	return exit
}

func oneLine(s string, max int) string {
	s = strings.ReplaceAll(s, "\n", "\\n")
	if len(s) > max {
		s = s[:max] + "..."
	}
	return s
}

// --- worker-side partial results ------------------------------------------------

// Partial is what a worker process reports back; the parent merges it.
type Partial struct {
	Evaluations  int64            `json:"evaluations"`
	Distinct     []uint64         `json:"distinct"`
	DistinctFull bool             `json:"distinct_full,omitempty"`
	Samples      []any            `json:"samples"`
	Counters     map[string]int64 `json:"counters"`
	Violations   []Violation      `json:"violations"`
	Inconclusive []string         `json:"inconclusive"`
	Extra        map[string]any   `json:"extra,omitempty"`
	Dropped      map[string]int64 `json:"dropped,omitempty"` // violations counted but not kept, by classifier key
}

// Export turns the run into a Partial (worker side).
func (r *Run) Export() Partial {
	r.mu.Lock()
	defer r.mu.Unlock()
	p := Partial{Evaluations: r.evaluations, Samples: r.samples, Counters: r.counters, Violations: r.violations, Extra: r.extra}
	for k := range r.distinct {
		p.Distinct = append(p.Distinct, k)
	}
	p.DistinctFull = r.distinctFull
	p.Dropped = r.dropped
	for i := int64(0); i < r.inconclusive; i++ {
		note := "inconclusive"
		if int(i) < len(r.inconcNotes) {
			note = r.inconcNotes[i]
		}
		p.Inconclusive = append(p.Inconclusive, note)
	}
	return p
}

// NewWorker makes a Run that only accumulates (no known-findings filtering; the parent does that).
func NewWorker(id, tier string, seed int64) *Run {
	return &Run{ID: id, Tier: tier, Seed: seed, Level: "exploration", start: time.Now(), worker: true,
		distinct: map[uint64]struct{}{}, counters: map[string]int64{}, known: map[string]int{},
		knownWhat: map[string]string{}, extra: map[string]any{}, maxSamples: 3, floors: map[string]int64{}}
}

// Merge folds a worker's partial result into the parent run.
func (r *Run) Merge(p Partial) {
	r.Eval(p.Evaluations)
	for _, d := range p.Distinct {
		r.distinctHash(d)
	}
	if p.DistinctFull {
		r.mu.Lock()
		r.distinctFull = true
		r.mu.Unlock()
	}
	for _, s := range p.Samples {
		r.Sample(s)
	}
	for k, v := range p.Counters {
		r.Count(k, v)
	}
	for _, v := range p.Violations {
		r.Violate(v)
	}
	for _, n := range p.Inconclusive {
		r.Inconclusive(n)
	}
	for k, n := range p.Dropped {
		r.mu.Lock()
		listed := false
		for _, f := range r.findings {
			if k != "" && f.Kind == "known" && f.Property == r.ID && f.Key == k {
				r.known[k] += int(n)
				r.knownWhat[k] = f.What
				listed = true
			}
		}
		if !listed {
			r.counters["violations_counted_without_witness"] += n
		}
		r.mu.Unlock()
	}
	for k, v := range p.Extra {
		if l, ok := v.([]any); ok {
			for _, x := range l {
				r.extraAppend(k, x)
			}
			continue
		}
		r.Extra(k, v)
	}
}

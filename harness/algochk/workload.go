package algochk

import (
	"fmt"
	"math/rand"
	"time"

	"github.com/junegunn/fzf/src/algo"

	"verif/harness/vk"
)

// alphabets: every character class the bonus table distinguishes, plus the
// folding corner cases (accented, title-case, letter-number, wide).
var smallAlpha = []rune{'a', 'A', 'b', '1', ' ', '/', '_', 'é', '\x01'}
var fullAlpha = []rune{'a', 'b', 'c', 'A', 'B', 'C', '1', '2', ' ', '\t', '/', ',', '-', '_', '.', '\x01', '\x1b', '\x00', '\x7f', '\n', '\r', '\v', '\f', 'é', 'É', 'ö', 'ǅ', 'ǆ', 'Ⅷ', 'ⅷ', '日', 'İ', ' ', '́', '�'}
var patAlphaSmall = []rune{'a', 'A', 'b', '1', '_', 'é', ' ', '/'}

func init() {
	vk.RegisterWorker("algo", worker)
}

// Main runs property C02 / C03 / C05.
func Main(prop, tier string) int { return MainWith(prop, tier, nil) }

// MainWith runs the in-process phase and then an optional extra phase on the same run.
func MainWith(prop, tier string, post func(*vk.Run)) int {
	r := vk.New(prop, tier)
	switch prop {
	case "C02":
		r.Rule = "calls of the seven exported matchers on (a) every text of length<=L over an 8-symbol alphabet x every pattern of length<=2 (exhaustive block), (b) random texts up to 300 runes with subsequence-derived and random patterns, (c) long inputs up to 70000 runes / 1200 pattern runes; flags and slab state randomised per call. distinct = (matcher, outcome, flags, length buckets, scheme, character-class mask) signatures with a non-empty pattern"
		r.Assumptions = []string{"pattern is lower-cased when case-insensitive and accent-free when normalising (what the query parser guarantees)", "reference folding = unicode.ToLower per rune + fzf's accent table (table content trusted)", "word character = letter or number; whitespace = unicode.IsSpace", "empty patterns: only range sanity (a term body is never empty)"}
	case "C03":
		r.Rule = "same workload as C02; V2 score/end compared with a whole-line int evaluation of the recurrence inside the domain N*M<=102400, upper bound by enumeration of every embedding for N<=14,M<=4; V1/exact/prefix/suffix compared with the linear evaluation of the reported occurrence; equal/boundary with their closed forms. distinct = (matcher, N bucket, M, score bucket, scheme) signatures of compared scores"
		r.Assumptions = []string{"the reference recurrence is a transcription of the documented dynamic programme without window, slab, int16 or row-offset arithmetic", "bonus table re-derived from the documented constants"}
	case "C05":
		r.Rule = "every call (arbitrary slab history with stale contents, random representation/withPos) is compared with the same (line, query, options) evaluated with a nil slab, a fresh slab, the other representation (ASCII text) and the other withPos; distinct = (matcher, outcome, flags, length buckets, slab state, scheme); process/library level: for random sub-lists S of a list L of distinct lines, filtering S must give the full result restricted to S in the same order, under random option sets and tiebreak lists"
		r.Assumptions = []string{"V2 with a slab smaller than N*M is a documented fallback to V1 and excluded from the nil-vs-slab equality"}
	}
	n := vk.NumWorkers()
	wd := 40 * time.Minute
	if !r.Quick() {
		wd = 150 * time.Minute
	}
	r.Fanout("algo", n, wd)
	if prop == "C05" {
		r.Floor("pairs_compared", 1000)
	}
	if post != nil {
		post(r)
	}
	if prop == "C03" {
		r.Floor("v2_scores_compared", 1000)
		r.Floor("linear_scores_compared", 1000)
	}
	return r.Finish()
}

func worker(r *vk.Run, w, n int, args []string) {
	rng := rand.New(rand.NewSource(r.Seed*1000003 + int64(w)*7919 + 17))
	c := newChecker(r, r.ID, rng)
	quick := r.Quick()
	for si := range Schemes {
		c.scheme = &Schemes[si]
		if !algo.Init(c.scheme.Name) {
			panic("algo.Init failed")
		}
		c.exhaustive(w, n, quick)
		c.random(w, n, quick)
		c.long(w, n, quick)
		if w%4 == 1 || !quick {
			c.slabHistory()
		}
	}
	algo.Init("default")
}

// exhaustive: all texts of length <= L over smallAlpha x all patterns of length <= P.
func (c *checker) exhaustive(w, n int, quick bool) {
	L, P := 4, 2
	if !quick {
		L, P = 5, 3
	}
	var pats [][]rune
	var gen func(cur []rune, depth int)
	gen = func(cur []rune, depth int) {
		if len(cur) > 0 {
			pats = append(pats, append([]rune(nil), cur...))
		}
		if depth == P {
			return
		}
		for _, a := range patAlphaSmall {
			gen(append(cur, a), depth+1)
		}
	}
	gen(nil, 0)
	idx := 0
	text := make([]rune, 0, L)
	var rec func(depth int)
	rec = func(depth int) {
		idx++
		if idx%n == w {
			t := append([]rune(nil), text...)
			for _, p := range pats {
				// one flag combination per (text, pattern), cycling deterministically + all 8 for short ones
				if len(t) <= 3 || !quick && len(t) <= 4 {
					for f := 0; f < 8; f++ {
						c.flags(t, p, f)
					}
				} else {
					c.flags(t, p, c.rng.Intn(8))
				}
			}
		}
		if depth == L {
			return
		}
		for _, a := range smallAlpha {
			text = append(text, a)
			rec(depth + 1)
			text = text[:len(text)-1]
		}
	}
	rec(0)
	c.r.Count("exhaustive_texts", int64(idx/n))
}

func (c *checker) flags(text, pat []rune, f int) {
	cs, norm, fwd := f&1 != 0, f&2 != 0, f&4 != 0
	p := prepPattern(pat, cs, norm)
	c.one(text, p, cs, norm, fwd, true)
}

// prepPattern applies what the query parser guarantees about patterns.
func prepPattern(pat []rune, cs, norm bool) []rune {
	p := append([]rune(nil), pat...)
	if !cs {
		for i, r := range p {
			p[i] = foldRune(r, false, false)
		}
	}
	if norm {
		p = algo.NormalizeRunes(p)
	}
	return p
}

func (c *checker) randText(n int) []rune {
	t := make([]rune, n)
	mode := c.rng.Intn(5)
	for i := range t {
		switch mode {
		case 0: // ASCII only (bytes representation)
			t[i] = fullAlpha[c.rng.Intn(23)]
		case 1: // words
			if c.rng.Intn(5) == 0 {
				t[i] = []rune{' ', '/', '-', '_', '.', '\x01', '\t'}[c.rng.Intn(7)]
			} else {
				t[i] = []rune{'a', 'b', 'c', 'A', 'B', '1'}[c.rng.Intn(6)]
			}
		case 2: // few symbols, many repeats
			t[i] = []rune{'a', 'A', 'b', ' '}[c.rng.Intn(4)]
		default:
			t[i] = fullAlpha[c.rng.Intn(len(fullAlpha))]
		}
	}
	return t
}

func (c *checker) derivePattern(text []rune, m int, cs, norm bool) []rune {
	// a subsequence (often a substring / prefix / suffix / whole) of the folded text, sometimes perturbed
	folded := Fold(text, cs, norm)
	N := len(folded)
	if N == 0 || m == 0 {
		return nil
	}
	if m > N {
		m = N
	}
	var p []rune
	switch c.rng.Intn(6) {
	case 0: // substring
		s := c.rng.Intn(N - m + 1)
		p = append(p, folded[s:s+m]...)
	case 1: // prefix after trimming
		s := LeadingSpace(text)
		if s+m > N {
			s = 0
		}
		p = append(p, folded[s:s+m]...)
	case 2: // suffix before trailing blanks
		e := N - TrailingSpace(text)
		if e-m < 0 {
			e = N
		}
		p = append(p, folded[e-m:e]...)
	case 3: // whole trimmed text
		s, e := LeadingSpace(text), N-TrailingSpace(text)
		if s < e {
			p = append(p, folded[s:e]...)
		} else {
			p = append(p, folded...)
		}
		if len(p) > 40 {
			p = p[:40]
		}
	default: // sparse subsequence
		idxs := c.rng.Perm(N)[:m]
		sortInts(idxs)
		for _, i := range idxs {
			p = append(p, folded[i])
		}
	}
	if c.rng.Intn(6) == 0 && len(p) > 0 { // perturb: likely non-match
		p[c.rng.Intn(len(p))] = fullAlpha[c.rng.Intn(len(fullAlpha))]
	}
	return prepPattern(p, cs, norm)
}

func sortInts(a []int) {
	for i := 1; i < len(a); i++ {
		for j := i; j > 0 && a[j-1] > a[j]; j-- {
			a[j-1], a[j] = a[j], a[j-1]
		}
	}
}

func (c *checker) random(w, n int, quick bool) {
	total := 60000
	if !quick {
		total = 6000000
	}
	per := total / n
	for i := 0; i < per; i++ {
		var N int
		switch c.rng.Intn(10) {
		case 0:
			N = c.rng.Intn(300)
		case 1, 2:
			N = c.rng.Intn(60)
		default:
			N = c.rng.Intn(16)
		}
		text := c.randText(N)
		f := c.rng.Intn(8)
		cs, norm, fwd := f&1 != 0, f&2 != 0, f&4 != 0
		M := 1 + c.rng.Intn(4)
		if c.rng.Intn(8) == 0 {
			M = 1 + c.rng.Intn(12)
		}
		pat := c.derivePattern(text, M, cs, norm)
		if pat == nil {
			pat = prepPattern([]rune{fullAlpha[c.rng.Intn(len(fullAlpha))]}, cs, norm)
		}
		c.one(text, pat, cs, norm, fwd, i%4 == 0)
	}
}

// long inputs: beyond the slab (N*M > 102400 => V1 fallback with a slab),
// beyond the int32 slab (N > 2048 => heap fallback), patterns > 1000 runes.
func (c *checker) long(w, n int, quick bool) {
	shapes := [][2]int{{70000, 3}, {66000, 1200}, {65536, 2}, {65535, 1}, {2049, 50}, {2048, 50}, {2047, 51}, {4000, 26}, {3000, 35}, {1025, 100}, {1024, 100}, {1023, 101}, {5000, 1001},
		// patterns whose full-match score no longer fits 16 bits (about 26 points per character)
		{1300, 1300}, {1500, 1270}, {3000, 2600}}
	reps := 1
	if !quick {
		reps = 6
	}
	k := 0
	for rep := 0; rep < reps; rep++ {
		for _, sh := range shapes {
			k++
			if k%n != w {
				continue
			}
			N, M := sh[0], sh[1]
			text := c.randText(N)
			f := c.rng.Intn(8)
			cs, norm, fwd := f&1 != 0, f&2 != 0, f&4 != 0
			pat := c.derivePattern(text, M, cs, norm)
			// upper-case occurrence before the lower-case one (the skip re-scan)
			if rep%2 == 1 && len(pat) > 0 && !cs {
				for i := range text {
					if text[i] < 128 && foldRune(text[i], false, false) == pat[0] {
						if text[i] >= 'a' && text[i] <= 'z' {
							text[i] -= 32
						}
						break
					}
				}
			}
			c.r.Count("long_cases", 1)
			c.r.Sample(map[string]any{"class": "long", "N": N, "M": len(pat), "scheme": c.scheme.Name, "flags": fmt.Sprintf("cs=%v norm=%v fwd=%v", cs, norm, fwd)})
			for c.force = 1; c.force <= 8; c.force++ {
				c.one(text, pat, cs, norm, fwd, false)
			}
			c.force = 0
		}
	}
}

// Package tty runs the real fzf binary interactively inside a private tmux
// server and drives it through --listen, keys, raw bytes and resizes. It
// observes the user-visible boundary: GET / state, the screen, the raw bytes
// written to the terminal, termios, stdout, exit status, the process table and
// $TMPDIR. The hook trace is used for quiescence detection in logical time only.
package tty

import (
	"bufio"
	"bytes"
	"encoding/hex"
	"encoding/json"
	"fmt"
	"io"
	"net"
	"os"
	"os/exec"
	"path/filepath"
	"strconv"
	"strings"
	"sync/atomic"
	"syscall"
	"time"

	"verif/harness/fzfrun"
	"verif/harness/vk"
)

type StartOpts struct {
	Args     []string // fzf arguments (without --listen)
	Input    []byte   // stdin content (ignored when InputCmd is set)
	InputCmd string   // shell command producing stdin
	TTYStdin bool     // leave stdin on the terminal (built-in walker / default command)
	Cols     int
	Rows     int
	Env      []string // extra KEY=VALUE
	Points   string   // FZF_VERIF_POINTS table
	Seed     int64
	NoListen bool
	Race     bool
	Prefix   string // shell words placed before fzf (e.g. "strace -f ...")
	Listen   string // --listen argument (default 127.0.0.1:0)
	Cwd      string
}

type Item struct {
	Index int    `json:"index"`
	Text  string `json:"text"`
}

type Status struct {
	Reading    bool   `json:"reading"`
	Progress   int    `json:"progress"`
	Query      string `json:"query"`
	Position   int    `json:"position"`
	Sort       bool   `json:"sort"`
	TotalCount int    `json:"totalCount"`
	MatchCount int    `json:"matchCount"`
	Current    *Item  `json:"current"`
	Matches    []Item `json:"matches"`
	Selected   []Item `json:"selected"`
}

type TraceEvent struct {
	Seq  int64  `json:"seq"`
	TUs  int64  `json:"t_us"`
	Kind string `json:"kind"`
	A    int    `json:"a"`
	B    int    `json:"b"`
	S    string `json:"s"`
}

type Session struct {
	Dir           string
	Sock          string
	Port          int
	Opts          StartOpts
	Posted        int // batches accepted by the server (HTTP 200)
	trace         []TraceEvent
	traceF        *os.File
	traceRd       *bufio.Reader
	partial       string
	closed        bool
	PanePid       int
	LastWait      string // why the last WaitQuiescent poll was not satisfied
	ListenAddrHex string // local address of the listening socket as in /proc/net/tcp (0100007F = 127.0.0.1)
	LooseSearch   bool // quiescence does not require the published result to have been handed to the terminal
	paneTTY       string
	serverPid     int
	syncN         int
}

var sessionCounter int64

func tmuxCmd(s *Session, args ...string) *exec.Cmd {
	a := append([]string{"-L", s.Sock, "-f", "/dev/null"}, args...)
	cmd := exec.Command("tmux", a...)
	cmd.Env = []string{"PATH=" + os.Getenv("PATH"), "HOME=" + s.Dir, "TMUX_TMPDIR=" + s.Dir, "TERM=xterm-256color", "LANG=C.UTF-8", "LC_ALL=C.UTF-8", "SHELL=/bin/sh"}
	return cmd
}

func (s *Session) tmux(args ...string) (string, error) {
	out, err := tmuxCmd(s, args...).CombinedOutput()
	return string(out), err
}

var portCounter int64

// freePort picks a port from a range private to this process (parallel workers and
// their fzf servers would otherwise race for the kernel's ephemeral ports).
func freePort() int {
	// disjoint ranges per worker process
	w, _ := strconv.Atoi(os.Getenv("VERIF_WORKER_INDEX"))
	base := 20000 + (w%40)*1000
	for i := 0; i < 1000; i++ {
		p := base + int(atomic.AddInt64(&portCounter, 1)%1000)
		l, err := net.Listen("tcp", fmt.Sprintf("127.0.0.1:%d", p))
		if err == nil {
			l.Close()
			return p
		}
	}
	return 0
}

func shq(s string) string { return "'" + strings.ReplaceAll(s, "'", `'\''`) + "'" }

// Start launches fzf in a fresh tmux server and waits until it answers GET (unless NoListen).
// A start-up that loses the race for its port is repeated with another port.
func Start(o StartOpts) (*Session, error) {
	for attempt := 0; ; attempt++ {
		s, err := start1(o)
		if err != nil && s != nil && attempt < 5 && strings.Contains(s.Stderr(), "failed to listen") {
			s.Close()
			continue
		}
		return s, err
	}
}

func start1(o StartOpts) (*Session, error) {
	n := atomic.AddInt64(&sessionCounter, 1)
	dir := filepath.Join(vk.Scratch(), fmt.Sprintf("tty-%d-%d", os.Getpid(), n))
	if err := os.MkdirAll(filepath.Join(dir, "tmp"), 0o755); err != nil {
		return nil, err
	}
	os.MkdirAll(filepath.Join(dir, "cwd"), 0o755)
	s := &Session{Dir: dir, Sock: fmt.Sprintf("verif-%d-%d", os.Getpid(), n), Opts: o}
	if o.Cols == 0 {
		o.Cols = 80
	}
	if o.Rows == 0 {
		o.Rows = 24
	}
	s.Opts = o
	var bin string
	var err error
	if o.Race {
		bin, err = fzfrun.BinRace()
	} else {
		bin, err = fzfrun.Bin()
	}
	if err != nil {
		return nil, err
	}
	args := append([]string{}, o.Args...)
	if !o.NoListen {
		// fzf picks a free port itself; the harness finds it through /proc (no probing races)
		spec := o.Listen
		if spec == "" {
			spec = "127.0.0.1:0"
		}
		args = append(args, "--listen", spec)
	}
	var words []string
	for _, a := range args {
		words = append(words, shq(a))
	}
	cwd := o.Cwd
	if cwd == "" {
		cwd = filepath.Join(dir, "cwd")
	}
	var sb strings.Builder
	sb.WriteString("#!/bin/sh\n")
	fmt.Fprintf(&sb, "D=%s\n", shq(dir))
	// the wrapper must survive a ctrl-c typed while fzf is not (or no longer) in raw mode,
	// so that the exit status is always recorded (a trap handler is not inherited by fzf)
	sb.WriteString("trap : INT QUIT\n")
	sb.WriteString("while [ ! -f \"$D/go\" ]; do sleep 0.01; done\n")
	fmt.Fprintf(&sb, "cd %s\n", shq(cwd))
	sb.WriteString("unset TMUX TMUX_PANE FZF_DEFAULT_OPTS FZF_DEFAULT_OPTS_FILE FZF_DEFAULT_COMMAND FZF_API_KEY\n")
	fmt.Fprintf(&sb, "export TERM=screen-256color SHELL=/bin/sh TMPDIR=%s FZF_VERIF_TRACE=%s FZF_VERIF_SEED=%d\n", shq(filepath.Join(dir, "tmp")), shq(filepath.Join(dir, "trace")), o.Seed)
	if o.Points != "" {
		fmt.Fprintf(&sb, "export FZF_VERIF_POINTS=%s\n", shq(o.Points))
	}
	if o.Race {
		fmt.Fprintf(&sb, "export GORACE=%s\n", shq("halt_on_error=0 log_path="+filepath.Join(dir, "race")))
	}
	for _, e := range o.Env {
		kv := strings.SplitN(e, "=", 2)
		if len(kv) == 2 {
			fmt.Fprintf(&sb, "export %s=%s\n", kv[0], shq(kv[1]))
		}
	}
	sb.WriteString("stty -g > \"$D/stty.before\" 2>/dev/null\n")
	fz := strings.TrimSpace(o.Prefix + " " + shq(bin) + " " + strings.Join(words, " "))
	switch {
	case o.TTYStdin:
		fmt.Fprintf(&sb, "%s > \"$D/stdout\" 2> \"$D/stderr\"\n", fz)
	case o.InputCmd != "":
		fmt.Fprintf(&sb, "{ %s ; } 2>/dev/null | %s > \"$D/stdout\" 2> \"$D/stderr\"\n", o.InputCmd, fz)
	default:
		os.WriteFile(filepath.Join(dir, "input"), o.Input, 0o644)
		fmt.Fprintf(&sb, "%s < \"$D/input\" > \"$D/stdout\" 2> \"$D/stderr\"\n", fz)
	}
	sb.WriteString("echo $? > \"$D/rc.tmp\"\nstty -g > \"$D/stty.after\" 2>/dev/null\nmv \"$D/rc.tmp\" \"$D/rc\"\n")
	sb.WriteString("exec sleep 100000\n")
	os.WriteFile(filepath.Join(dir, "run.sh"), []byte(sb.String()), 0o755)
	os.WriteFile(filepath.Join(dir, "trace"), nil, 0o644)
	if out, err := s.tmux("new-session", "-d", "-s", "main", "-x", strconv.Itoa(o.Cols), "-y", strconv.Itoa(o.Rows), "sh "+shq(filepath.Join(dir, "run.sh"))); err != nil {
		return nil, fmt.Errorf("tmux new-session: %v: %s", err, out)
	}
	s.tmux("set-option", "-g", "history-limit", "0")
	if out, err := s.tmux("pipe-pane", "-O", "-t", "main", "cat > "+shq(filepath.Join(dir, "raw"))); err != nil {
		s.Close()
		return nil, fmt.Errorf("pipe-pane: %v: %s", err, out)
	}
	if out, err := s.tmux("display-message", "-p", "-t", "main", "#{pane_pid}"); err == nil {
		s.PanePid, _ = strconv.Atoi(strings.TrimSpace(out))
	}
	os.WriteFile(filepath.Join(dir, "go"), nil, 0o644)
	if !o.NoListen {
		deadline := time.Now().Add(30 * time.Second)
		for {
			if s.Port == 0 {
				s.Port = s.listenPort()
			}
			if s.Port != 0 {
				if _, err := s.Get(0); err == nil {
					break
				}
			}
			if _, ok := s.ExitCode(); ok {
				return s, fmt.Errorf("fzf exited during start-up: %s", s.Stderr())
			}
			if time.Now().After(deadline) {
				return s, fmt.Errorf("fzf did not answer GET within 30 s: stderr=%s", s.Stderr())
			}
			time.Sleep(5 * time.Millisecond)
		}
	}
	return s, nil
}

// listenPort finds the TCP port the session's fzf process listens on.
func (s *Session) listenPort() int {
	pid := s.FzfPid()
	if pid == 0 {
		return 0
	}
	inodes := map[string]bool{}
	fds, _ := os.ReadDir(fmt.Sprintf("/proc/%d/fd", pid))
	for _, fd := range fds {
		if l, err := os.Readlink(fmt.Sprintf("/proc/%d/fd/%s", pid, fd.Name())); err == nil && strings.HasPrefix(l, "socket:[") {
			inodes[strings.TrimSuffix(strings.TrimPrefix(l, "socket:["), "]")] = true
		}
	}
	if len(inodes) == 0 {
		return 0
	}
	for _, f := range []string{"/proc/net/tcp", "/proc/net/tcp6"} {
		data, err := os.ReadFile(f)
		if err != nil {
			continue
		}
		for _, line := range strings.Split(string(data), "\n")[1:] {
			fl := strings.Fields(line)
			if len(fl) < 10 || fl[3] != "0A" || !inodes[fl[9]] {
				continue
			}
			if i := strings.LastIndex(fl[1], ":"); i >= 0 {
				if p, err := strconv.ParseInt(fl[1][i+1:], 16, 32); err == nil {
					s.ListenAddrHex = fl[1][:i]
					return int(p)
				}
			}
		}
	}
	return 0
}

// ---- HTTP

func (s *Session) http(req string, timeout time.Duration) (int, string, error) {
	c, err := net.DialTimeout("tcp", fmt.Sprintf("127.0.0.1:%d", s.Port), 2*time.Second)
	if err != nil {
		return 0, "", err
	}
	defer c.Close()
	c.SetDeadline(time.Now().Add(timeout))
	if _, err := c.Write([]byte(req)); err != nil {
		return 0, "", err
	}
	data, err := io.ReadAll(c)
	if len(data) == 0 && err != nil {
		return 0, "", err
	}
	parts := strings.SplitN(string(data), "\r\n\r\n", 2)
	code := 0
	if f := strings.Fields(parts[0]); len(f) >= 2 {
		code, _ = strconv.Atoi(f[1])
	}
	body := ""
	if len(parts) == 2 {
		body = parts[1]
	}
	return code, body, nil
}

// RawHTTP sends arbitrary bytes to the listen port and returns whatever comes back.
func (s *Session) RawHTTP(raw []byte, timeout time.Duration, closeWrite bool) ([]byte, error) {
	c, err := net.DialTimeout("tcp", fmt.Sprintf("127.0.0.1:%d", s.Port), 2*time.Second)
	if err != nil {
		return nil, err
	}
	defer c.Close()
	c.SetDeadline(time.Now().Add(timeout))
	c.Write(raw)
	if closeWrite {
		c.(*net.TCPConn).CloseWrite()
	}
	return io.ReadAll(c)
}

// Post sends an action list; returns the HTTP status.
func (s *Session) Post(body string, headers ...string) (int, error) {
	h := ""
	for _, x := range headers {
		h += x + "\r\n"
	}
	req := fmt.Sprintf("POST / HTTP/1.1\r\nHost: localhost\r\n%sContent-Length: %d\r\n\r\n%s", h, len(body), body)
	code, _, err := s.http(req, 15*time.Second)
	if err == nil && code == 200 {
		s.Posted++
	}
	return code, err
}

// PostNoCount sends an action list without touching the session counters (for concurrent posting;
// the caller adds the accepted ones to Posted afterwards).
func (s *Session) PostNoCount(body string) (int, error) {
	req := fmt.Sprintf("POST / HTTP/1.1\r\nHost: localhost\r\nContent-Length: %d\r\n\r\n%s", len(body), body)
	code, _, err := s.http(req, 15*time.Second)
	return code, err
}

// Get fetches the state; limit 0 = default window of 100 matches.
func (s *Session) Get(limit int, headers ...string) (*Status, error) {
	path := "/"
	if limit > 0 {
		path = fmt.Sprintf("/?limit=%d", limit)
	}
	h := ""
	for _, x := range headers {
		h += x + "\r\n"
	}
	code, body, err := s.http(fmt.Sprintf("GET %s HTTP/1.1\r\nHost: localhost\r\n%s\r\n", path, h), 15*time.Second)
	if err != nil {
		return nil, err
	}
	if code != 200 {
		return nil, fmt.Errorf("GET status %d: %s", code, body)
	}
	var st Status
	if err := json.Unmarshal([]byte(body), &st); err != nil {
		return nil, fmt.Errorf("GET body: %v: %q", err, body)
	}
	return &st, nil
}

// ---- terminal side

func (s *Session) SendKeys(keys ...string) error {
	_, err := s.tmux(append([]string{"send-keys", "-t", "main"}, keys...)...)
	return err
}

// SendRaw delivers raw bytes to the pane's tty input.
func (s *Session) SendRaw(b []byte) error {
	var args []string
	args = append(args, "send-keys", "-t", "main", "-H")
	for _, x := range b {
		args = append(args, hex.EncodeToString([]byte{x}))
	}
	_, err := s.tmux(args...)
	return err
}

func (s *Session) Resize(cols, rows int) error {
	_, err := s.tmux("resize-window", "-t", "main", "-x", strconv.Itoa(cols), "-y", strconv.Itoa(rows))
	if err == nil {
		s.Opts.Cols, s.Opts.Rows = cols, rows
	}
	return err
}

// WaitRedraw waits until fzf has redrawn itself for the given terminal size (trace).
func (s *Session) WaitRedraw(cols, rows int, timeout time.Duration) bool {
	deadline := time.Now().Add(timeout)
	for {
		s.readTrace()
		for i := len(s.trace) - 1; i >= 0; i-- {
			if s.trace[i].Kind == "term.redraw" {
				if s.trace[i].A == cols && s.trace[i].B == rows {
					return true
				}
				break
			}
		}
		if _, ok := s.ExitCode(); ok || time.Now().After(deadline) {
			return false
		}
		time.Sleep(3 * time.Millisecond)
	}
}

// Capture returns the visible screen, one string per row, right-trimmed.
func (s *Session) Capture() ([]string, error) {
	out, err := s.tmux("capture-pane", "-p", "-t", "main")
	if err != nil {
		return nil, fmt.Errorf("capture-pane: %v: %s", err, out)
	}
	lines := strings.Split(strings.TrimSuffix(out, "\n"), "\n")
	for i := range lines {
		lines[i] = strings.TrimRight(lines[i], " ")
	}
	return lines, nil
}

// SyncScreen makes sure tmux has interpreted everything fzf wrote so far: a title-setting
// sequence (which paints nothing) is appended to the pane's output stream, and the call returns
// once tmux reports that title. The pty is a FIFO, so all earlier output has been applied.
func (s *Session) SyncScreen(timeout time.Duration) bool {
	if s.paneTTY == "" {
		out, err := s.tmux("display-message", "-p", "-t", "main", "#{pane_tty}")
		if err != nil {
			return false
		}
		s.paneTTY = strings.TrimSpace(out)
	}
	s.syncN++
	mark := fmt.Sprintf("sync-%d-%d", os.Getpid(), s.syncN)
	f, err := os.OpenFile(s.paneTTY, os.O_WRONLY|syscall.O_NOCTTY, 0)
	if err != nil {
		return false
	}
	_, err = f.WriteString("\x1b]2;" + mark + "\x07")
	f.Close()
	if err != nil {
		return false
	}
	deadline := time.Now().Add(timeout)
	for {
		out, err := s.tmux("display-message", "-p", "-t", "main", "#{pane_title}")
		if err == nil && strings.TrimSpace(out) == mark {
			return true
		}
		if time.Now().After(deadline) {
			return false
		}
		time.Sleep(2 * time.Millisecond)
	}
}

// StallTerminal stops (or resumes) the session's private tmux server: while it is stopped nobody
// reads the pty, so fzf's writes to the terminal block once the kernel buffer is full.
func (s *Session) StallTerminal(stop bool) bool {
	if s.serverPid == 0 {
		out, err := s.tmux("display-message", "-p", "-t", "main", "#{pid}")
		if err != nil {
			return false
		}
		s.serverPid, _ = strconv.Atoi(strings.TrimSpace(out))
	}
	if s.serverPid <= 1 {
		return false
	}
	sig := syscall.SIGCONT
	if stop {
		sig = syscall.SIGSTOP
	}
	return syscall.Kill(s.serverPid, sig) == nil
}

// PaneSize reports tmux's idea of the pane size ("WxH").
func (s *Session) PaneSize() (string, error) {
	out, err := s.tmux("display-message", "-p", "-t", "main", "#{pane_width}x#{pane_height}")
	return strings.TrimSpace(out), err
}

func (s *Session) CursorX() int {
	out, err := s.tmux("display-message", "-p", "-t", "main", "#{cursor_x}")
	if err != nil {
		return -1
	}
	n, _ := strconv.Atoi(strings.TrimSpace(out))
	return n
}

// ---- trace

func (s *Session) readTrace() {
	if s.traceF == nil {
		f, err := os.Open(filepath.Join(s.Dir, "trace"))
		if err != nil {
			return
		}
		s.traceF = f
		s.traceRd = bufio.NewReader(f)
	}
	for {
		line, err := s.traceRd.ReadString('\n')
		s.partial += line
		if err != nil {
			return
		}
		var ev TraceEvent
		if json.Unmarshal([]byte(s.partial), &ev) == nil {
			s.trace = append(s.trace, ev)
		}
		s.partial = ""
	}
}

// Trace returns the events recorded so far.
func (s *Session) Trace() []TraceEvent {
	s.readTrace()
	return s.trace
}

// consumed: number of server action batches the UI loop has taken and finished processing.
func (s *Session) consumedBatches() int {
	taken, done := 0, 0
	for _, e := range s.trace {
		switch e.Kind {
		case "term.server_actions":
			taken++
		case "term.loop_end":
			done = taken
		}
	}
	return done
}

// WaitConsumed waits until every accepted POST has been processed by the UI loop.
func (s *Session) WaitConsumed(timeout time.Duration) bool {
	deadline := time.Now().Add(timeout)
	for {
		s.readTrace()
		if s.consumedBatches() >= s.Posted {
			return true
		}
		if _, ok := s.ExitCode(); ok {
			return false
		}
		if time.Now().After(deadline) {
			return false
		}
		time.Sleep(2 * time.Millisecond)
	}
}

// readerSettled: every reader that was started has finished, and a reader was started
// after the last reload request the terminal issued.
func (s *Session) readerSettled() bool {
	starts, fins := 0, 0
	lastReload, lastStart := -1, -1
	for i, e := range s.trace {
		switch e.Kind {
		case "reader.start":
			starts++
			lastStart = i
		case "reader.fin":
			fins++
		case "term.reload":
			lastReload = i
		}
	}
	return starts > 0 && starts == fins && lastStart > lastReload
}

// searchSettled: the last issued search request was issued after the last reader finished,
// it has been answered, and that very result was handed to the terminal.
func (s *Session) searchSettled() bool {
	lastReset, lastResetAt, lastFin := -1, -1, -1
	for i, e := range s.trace {
		switch e.Kind {
		case "matcher.reset":
			lastReset, lastResetAt = e.A, i
		case "reader.fin":
			lastFin = i
		}
	}
	if lastReset < 0 || lastResetAt < lastFin {
		return false
	}
	ptr := ""
	seen := false
	for _, e := range s.trace {
		if e.Kind == "matcher.publish" && e.A == lastReset {
			ptr, seen = e.S, true
		}
		if seen && e.Kind == "term.update_list" && e.S == ptr {
			return true
		}
	}
	// (LooseSearch: the answer was published; whether the terminal took it is left to the caller's oracle)
	return seen && s.LooseSearch
}

// WaitQuiescent: all batches consumed, input fully read, last search answered and displayed,
// and nothing new in the trace for a short logical pause. Returns the final state.
func (s *Session) WaitQuiescent(timeout time.Duration) (*Status, bool) {
	deadline := time.Now().Add(timeout)
	stableSince := time.Time{}
	lastLen := -1
	for {
		s.readTrace()
		ok := s.consumedBatches() >= s.Posted && s.readerSettled() && s.searchSettled()
		if ok {
			if len(s.trace) != lastLen {
				lastLen = len(s.trace)
				stableSince = time.Now()
			} else if time.Since(stableSince) > 40*time.Millisecond {
				st, err := s.Get(1000000)
				if err != nil {
					s.LastWait = "GET failed: " + err.Error()
				} else if st.Reading {
					s.LastWait = "state says reading=true"
				}
				if err == nil && !st.Reading {
					s.readTrace()
					if len(s.trace) == lastLen {
						return st, true
					}
					s.LastWait = "trace grew during GET"
				}
			}
		} else {
			lastLen = -1
			s.LastWait = fmt.Sprintf("consumed %d of %d batches, reader settled=%v, search settled=%v", s.consumedBatches(), s.Posted, s.readerSettled(), s.searchSettled())
		}
		if _, exited := s.ExitCode(); exited {
			return nil, false
		}
		if time.Now().After(deadline) {
			return nil, false
		}
		time.Sleep(3 * time.Millisecond)
	}
}

// WaitStream: for a session whose input stream is still open. Waits until the coordinator has taken
// a snapshot after the reader had delivered at least `delivered` records, the search issued for that snapshot (or a
// later one) has been answered and handed to the terminal, all batches are consumed and the trace is
// quiet; then returns the state.
func (s *Session) WaitStream(delivered int, timeout time.Duration) (*Status, bool) {
	deadline := time.Now().Add(timeout)
	stableSince := time.Time{}
	lastLen := -1
	for {
		s.readTrace()
		snapAt := -1
		for i, e := range s.trace {
			// (the coordinator reads the reader's item counter right before it takes a snapshot)
			if e.Kind == "core.pushed" && e.A >= delivered && snapAt < 0 {
				snapAt = i
			}
			if e.Kind == "reader.start" && i > snapAt {
				snapAt = -1 // a reload started: the count restarts
			}
		}
		ok := snapAt >= 0 && s.consumedBatches() >= s.Posted
		if ok {
			lastReset, lastResetAt := -1, -1
			for i, e := range s.trace {
				if e.Kind == "matcher.reset" {
					lastReset, lastResetAt = e.A, i
				}
			}
			ok = lastResetAt > snapAt
			if ok {
				ptr, seen, shown := "", false, false
				for _, e := range s.trace {
					if e.Kind == "matcher.publish" && e.A == lastReset {
						ptr, seen = e.S, true
					}
					if seen && e.Kind == "term.update_list" && e.S == ptr {
						shown = true
					}
				}
				ok = shown
			}
		}
		if ok {
			if len(s.trace) != lastLen {
				lastLen = len(s.trace)
				stableSince = time.Now()
			} else if time.Since(stableSince) > 40*time.Millisecond {
				st, err := s.Get(1000000)
				if err == nil {
					s.readTrace()
					if len(s.trace) == lastLen {
						return st, true
					}
				}
			}
		} else {
			lastLen = -1
			s.LastWait = fmt.Sprintf("stream: snapshot with %d records seen=%v, consumed %d of %d batches", delivered, snapAt >= 0, s.consumedBatches(), s.Posted)
		}
		if _, exited := s.ExitCode(); exited {
			return nil, false
		}
		if time.Now().After(deadline) {
			return nil, false
		}
		time.Sleep(3 * time.Millisecond)
	}
}

// ---- results

func (s *Session) readFile(name string) []byte {
	b, _ := os.ReadFile(filepath.Join(s.Dir, name))
	return b
}

func (s *Session) Stdout() []byte { return s.readFile("stdout") }
func (s *Session) Stderr() string { return string(s.readFile("stderr")) }
func (s *Session) Raw() []byte    { return s.readFile("raw") }
func (s *Session) SttyBefore() string {
	return strings.TrimSpace(string(s.readFile("stty.before")))
}
func (s *Session) SttyAfter() string { return strings.TrimSpace(string(s.readFile("stty.after"))) }

func (s *Session) ExitCode() (int, bool) {
	b, err := os.ReadFile(filepath.Join(s.Dir, "rc"))
	if err != nil {
		return 0, false
	}
	n, err := strconv.Atoi(strings.TrimSpace(string(b)))
	return n, err == nil
}

func (s *Session) WaitExit(timeout time.Duration) (int, bool) {
	deadline := time.Now().Add(timeout)
	for {
		if rc, ok := s.ExitCode(); ok {
			return rc, true
		}
		if time.Now().After(deadline) {
			return 0, false
		}
		time.Sleep(3 * time.Millisecond)
	}
}

// TmpFiles lists what is left in the session's private $TMPDIR.
func (s *Session) TmpFiles() []string {
	ents, _ := os.ReadDir(filepath.Join(s.Dir, "tmp"))
	var out []string
	for _, e := range ents {
		out = append(out, e.Name())
	}
	return out
}

type Proc struct {
	Pid  int
	PPid int
	Pgid int
	Sid  int
	Comm string
	Cmd  string
}

// SessionProcs lists the processes whose session id is the pane's shell (the
// pane shell is a session leader), excluding the wrapper shell itself and its final sleep.
func (s *Session) SessionProcs() []Proc {
	var out []Proc
	ents, _ := os.ReadDir("/proc")
	for _, e := range ents {
		pid, err := strconv.Atoi(e.Name())
		if err != nil {
			continue
		}
		stat, err := os.ReadFile(fmt.Sprintf("/proc/%d/stat", pid))
		if err != nil {
			continue
		}
		// pid (comm) state ppid pgrp session ...
		r := bytes.LastIndexByte(stat, ')')
		l := bytes.IndexByte(stat, '(')
		if r < 0 || l < 0 {
			continue
		}
		f := strings.Fields(string(stat[r+1:]))
		if len(f) < 4 {
			continue
		}
		ppid, _ := strconv.Atoi(f[1])
		pgid, _ := strconv.Atoi(f[2])
		sid, _ := strconv.Atoi(f[3])
		if sid != s.PanePid || pid == s.PanePid {
			continue
		}
		cmdline, _ := os.ReadFile(fmt.Sprintf("/proc/%d/cmdline", pid))
		cmd := strings.ReplaceAll(strings.TrimRight(string(cmdline), "\x00"), "\x00", " ")
		if f[0] == "Z" {
			cmd += " <zombie>"
		}
		out = append(out, Proc{pid, ppid, pgid, sid, string(stat[l+1 : r]), cmd})
	}
	return out
}

// Leftovers: session processes other than the wrapper's final `sleep 100000`.
func (s *Session) Leftovers() []Proc {
	var out []Proc
	for _, p := range s.SessionProcs() {
		if p.Comm == "sleep" && strings.Contains(p.Cmd, "100000") {
			continue
		}
		if p.Comm == "cat" && strings.Contains(p.Cmd, "cat") && p.PPid != 1 && false {
			continue
		}
		out = append(out, p)
	}
	return out
}

// Signal sends a signal to the fzf process of the session.
func (s *Session) FzfPid() int {
	for _, p := range s.SessionProcs() {
		if p.Comm == "fzf" || p.Comm == "fzf-race" {
			return p.Pid
		}
	}
	return 0
}

func (s *Session) Signal(sig syscall.Signal) bool {
	if pid := s.FzfPid(); pid > 0 {
		return syscall.Kill(pid, sig) == nil
	}
	return false
}

// Close kills everything that belongs to the session and removes its directory.
func (s *Session) Close() {
	if s.serverPid > 1 {
		syscall.Kill(s.serverPid, syscall.SIGCONT)
	}
	if s.closed {
		return
	}
	s.closed = true
	procs := s.SessionProcs()
	s.tmux("kill-server")
	for _, p := range procs {
		syscall.Kill(p.Pid, syscall.SIGKILL)
	}
	if s.PanePid > 0 {
		syscall.Kill(s.PanePid, syscall.SIGKILL)
	}
	if s.traceF != nil {
		s.traceF.Close()
	}
	os.RemoveAll(s.Dir)
}

// RaceReports returns the race detector output of a -race session.
func (s *Session) RaceReports() string {
	var sb strings.Builder
	files, _ := filepath.Glob(filepath.Join(s.Dir, "race.*"))
	for _, f := range files {
		b, _ := os.ReadFile(f)
		sb.Write(b)
	}
	return sb.String()
}

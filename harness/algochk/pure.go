package algochk

import (
	"fmt"
	"sort"

	"github.com/junegunn/fzf/src/util"
)

// ---------------------------------------------------------------- C05 purity

func sameOutcome(a, b outcome, ignoreStart bool, comparePos bool) string {
	if (a.res.Start >= 0) != (b.res.Start >= 0) {
		return "match/non-match differs"
	}
	if a.res.Start < 0 {
		return ""
	}
	if a.res.Score != b.res.Score {
		return fmt.Sprintf("score differs (%d vs %d)", a.res.Score, b.res.Score)
	}
	if a.res.End != b.res.End {
		return fmt.Sprintf("end differs (%d vs %d)", a.res.End, b.res.End)
	}
	if !ignoreStart && a.res.Start != b.res.Start {
		return fmt.Sprintf("start differs (%d vs %d)", a.res.Start, b.res.Start)
	}
	if comparePos && a.has && b.has {
		pa := append([]int(nil), a.pos...)
		pb := append([]int(nil), b.pos...)
		sort.Ints(pa)
		sort.Ints(pb)
		if len(pa) != len(pb) {
			return "number of positions differs"
		}
		for i := range pa {
			if pa[i] != pb[i] {
				return fmt.Sprintf("positions differ (%v vs %v)", pa, pb)
			}
		}
	}
	return ""
}

// pure compares the call that was just made (arbitrary slab history, random
// representation / withPos) against the canonical evaluation of the same
// (line, query, options): nil slab, canonical representation.
func (c *checker) pure(m int, k Case, text, pat []rune, got outcome) {
	N, M := len(text), len(pat)
	if M == 0 {
		return
	}
	inV2Domain := N*M <= 64 // the small slab (64 cells) must not change the algorithm either... see below
	_ = inV2Domain
	// reference evaluations
	fresh := c.cleanSlab(N, M)
	if N*M > 40*1024 {
		// near and beyond the point where V2 hands over to the greedy algorithm the reference slab is
		// brand new: the hand-over point is the slab's capacity, which no call history may move
		fresh = util.MakeSlab(100*1024, 2048)
	}
	variants := []struct {
		name    string
		runes   bool
		withPos bool
		slab    *util.Slab
	}{
		{"nil-slab", k.Runes, k.WithPos, nil},
		{"fresh-slab", k.Runes, k.WithPos, fresh},
		{"other-repr", !k.Runes, k.WithPos, nil},
		{"other-withpos", k.Runes, !k.WithPos, nil},
	}
	c.r.Distinct(sig("C05", m, got.res.Start >= 0, N, M, k.CS, k.Norm, k.Fwd, k.Runes, k.WithPos) + k.Slab + k.Scheme)
	for _, v := range variants {
		// With a slab too small for N*M, FuzzyMatchV2 documents a different
		// algorithm (greedy fallback); scores then legitimately differ from the
		// nil-slab evaluation. fzf always passes a slab, so the canonical
		// evaluation for V2 is "with a slab of the production size".
		slab := v.slab
		if m == mV2 {
			if k.Slab == "small" {
				return // fallback domain differs by construction; covered by C02/C03
			}
			if slab == nil {
				slab = fresh
			}
			if k.Slab == "nil" && N*M > 100*1024 {
				return // nil slab never falls back, a production slab does
			}
		}
		if v.name == "other-repr" && !isASCII(text) {
			continue // only ASCII text can be held in both representations
		}
		ref := call(m, text, v.runes, pat, k.CS, k.Norm, k.Fwd, v.withPos, slab)
		c.r.Eval(1)
		c.r.Count("pairs_compared", 1)
		ignoreStart := false
		key := ""
		if m == mV2 && v.withPos != k.WithPos {
			ignoreStart = true // F12 handled below
		}
		if d := sameOutcome(got, ref, ignoreStart, v.withPos == k.WithPos); d != "" {
			c.violate(key, fmt.Sprintf("result depends on %s: %s", v.name, d), k, got,
				map[string]any{"variant": v.name, "variant_result": map[string]any{"start": ref.res.Start, "end": ref.res.End, "score": ref.res.Score, "pos": ref.pos}})
			continue
		}
		if ignoreStart && got.res.Start >= 0 && got.res.Start != ref.res.Start {
			c.violate("F12-v2-start-without-pos", fmt.Sprintf("V2 start differs with/without position tracking (%d vs %d)", got.res.Start, ref.res.Start), k, got,
				map[string]any{"variant": v.name, "variant_start": ref.res.Start})
		}
	}
}

func isASCII(t []rune) bool {
	for _, r := range t {
		if r >= 128 {
			return false
		}
	}
	return true
}

// cleanSlab returns a production-size slab whose cells are all zero, as a
// freshly allocated one (only the region a call of this size can touch is re-zeroed).
func (c *checker) cleanSlab(N, M int) *util.Slab {
	if c.clean == nil {
		c.clean = util.MakeSlab(100*1024, 2048)
		c.cleanDirty16, c.cleanDirty32 = 0, 0
	}
	for i := 0; i < c.cleanDirty16 && i < len(c.clean.I16); i++ {
		c.clean.I16[i] = 0
	}
	for i := 0; i < c.cleanDirty32 && i < len(c.clean.I32); i++ {
		c.clean.I32[i] = 0
	}
	c.cleanDirty16 = 3*N + 2*N*M + 64
	c.cleanDirty32 = N + M + 64
	return c.clean
}

// slabHistory: the point at which FuzzyMatchV2 hands over to the greedy algorithm is a property of
// the line and the query (N*M against the production slab size), not of what the slab was used for
// before. A call that needs more scratch memory than the slab holds (3N+2NM cells with N*M still
// inside the limit) is followed, on the same slab, by a call just beyond the limit; the second
// result must be the one a brand-new slab gives.
func (c *checker) slabHistory() {
	if c.prop != "C05" {
		return
	}
	shapes := [][4]int{{28000, 2, 39000, 3}, {40000, 1, 60000, 2}, {30000, 3, 20000, 6}, {51000, 2, 35000, 3}, {20000, 4, 26000, 4}}
	for _, sh := range shapes {
		for _, withPos := range []bool{false, true} {
			slab := util.MakeSlab(100*1024, 2048)
			textA := c.randText(sh[0])
			patA := c.derivePattern(textA, sh[1], false, false)
			textB := c.randText(sh[2])
			patB := c.derivePattern(textB, sh[3], false, false)
			if len(patA) == 0 || len(patB) == 0 {
				continue
			}
			call(mV2, textA, false, patA, false, false, true, withPos, slab)
			got := call(mV2, textB, false, patB, false, false, true, withPos, slab)
			ref := call(mV2, textB, false, patB, false, false, true, withPos, util.MakeSlab(100*1024, 2048))
			c.r.Eval(1)
			c.r.Count("pairs_compared", 1)
			c.r.Count("slab_history_pairs", 1)
			c.r.Distinct(fmt.Sprintf("C05 slab-history %dx%d then %dx%d pos%v %s", sh[0], len(patA), sh[2], len(patB), withPos, c.scheme.Name))
			if d := sameOutcome(got, ref, false, true); d != "" {
				k := mkCase(c.scheme, mV2, textB, false, patB, false, false, true, withPos, "after-large-call")
				c.violate("", fmt.Sprintf("result depends on what the slab was used for before (a %dx%d call preceded): %s", sh[0], len(patA), d), k, got,
					map[string]any{"preceding_call": fmt.Sprintf("N=%d M=%d", sh[0], len(patA)), "fresh_slab_result": map[string]any{"start": ref.res.Start, "end": ref.res.End, "score": ref.res.Score}})
			}
		}
	}
}

// Package optchk decides C17: any command line is accepted as documented or
// rejected cleanly; later occurrences win; argv beats the environment; --bind
// specifications round-trip.
package optchk

import (
	"bytes"
	"fmt"
	"math/rand"
	"os"
	"path/filepath"
	"reflect"
	"runtime"
	"sort"
	"strings"
	"time"
	"unicode"

	fzf "github.com/junegunn/fzf/src"
	"github.com/junegunn/fzf/src/tui"

	"verif/harness/fzfrun"
	"verif/harness/vk"
)

func init() { vk.RegisterWorker("c17", worker) }

func Main(prop, tier string) int {
	r := vk.New("C17", tier)
	r.Rule = "(a) totality: argument vectors of 1..8 words drawn from the full option vocabulary (every spelling in the parser, with = and separate-word values, glued short forms) x a value pool (edge numbers, %, empty, multi-byte, ranges, delimiters, colour/border/preview-window/bind fragments, garbage): ParseOptions must return (options | error) without panicking; (b) the built binary with the same vectors + --filter: exit 0/1, or 2 with a message, never a crash dump; (c) override law: parse(A + [o=v1] + B + [o=v2]) == parse(A + B + [o=v2]) structurally (function-valued and positional-index fields excluded) for last-one-wins options (incl. --color values that name a base scheme, +2, --no-color), with canary command lines re-parsed in between: what a command line means must not depend on what the process parsed before (state leaking into built-in tables is an earlier occurrence that keeps its effect); (d) layering: options file < $FZF_DEFAULT_OPTS < argv; (e) --bind round trip: generated (keys, action list with arguments in every documented delimiter form able to carry them) parse to exactly those actions, in order, arguments byte-identical. distinct = (set of option spellings | delimiter forms + key kinds) signatures"
	r.Assumptions = []string{"--man, --profile-*, --history (gets a scratch path) are excluded from process runs", "punctuation keys , : + are generated only in single-key bindings (their combination with other keys is undocumented)", "an argument in a paired/punctuation form does not contain its closer followed by + or ,; the trailing-colon form is last in the specification", "the expected expansion of an action name is its parse in isolation (compositionality is what is checked)"}
	if _, err := fzfrun.Bin(); err != nil {
		r.Inconclusive(err.Error())
		r.Floor("parse_calls", 1)
		return r.Finish()
	}
	r.Fanout("c17", vk.NumWorkers(), 30*time.Minute)
	r.Floor("parse_calls", 10000)
	r.Floor("override_pairs", 1000)
	r.Floor("bind_roundtrips", 1000)
	r.Floor("layering_cases", 50)
	r.Floor("proc_runs", 50)
	return r.Finish()
}

var flagOpts = strings.Fields(`+c +e +i +m +s +x --ambidouble --ansi --async --bash --black --bold --clear --cycle --disabled --enabled --exact --exit-0 --extended --extended-exact --filepath-word --fish --force-tty-in --header-first --help --highlight-line --hscroll --ignore-case --inline-info --keep-right --literal --multi-line --no-256 --no-ambidouble --no-ansi --no-black --no-bold --no-border --no-border-label --no-clear --no-color --no-cycle --no-exact --no-exit-0 --no-expect --no-extended --no-filepath-word --no-force-tty-in --no-gap --no-gap-line --no-header --no-header-border --no-header-first --no-header-label --no-header-lines --no-header-lines-border --no-height --no-highlight-line --no-history --no-hscroll --no-ignore-case --no-info --no-info-command --no-inline-info --no-input --no-input-border --no-input-label --no-keep-right --no-list-border --no-list-label --no-listen --no-listen-unsafe --no-literal --no-margin --no-mouse --no-multi --no-multi-line --no-padding --no-phony --no-preview --no-preview-border --no-preview-label --no-print-query --no-print0 --no-read0 --no-reverse --no-scrollbar --no-select-1 --no-separator --no-sort --no-sync --no-tac --no-tail --no-tmux --no-track --no-unicode --no-winpty --no-wrap --phony --print-query --print0 --read0 --reverse --select-1 --smart-case --sync --tac --track --unicode --version --wrap --zsh -0 -1 -e -i -x -m -s`)

var valueOpts = strings.Fields(`--accept-nth --algo --bind --border --border-label --border-label-pos --color --delimiter --ellipsis --expect --filter --gap --gap-line --ghost --header --header-border --header-label --header-label-pos --header-lines --header-lines-border --height --history-size --hscroll-off --info --info-command --input-border --input-label --input-label-pos --jump-labels --layout --list-border --list-label --list-label-pos --listen --listen-unsafe --margin --marker --marker-multi-line --min-height --multi --nth --padding --pointer --preview --preview-border --preview-label --preview-label-pos --preview-window --prompt --query --scheme --scroll-off --scrollbar --separator --sort --style --tabstop --tail --tiebreak --tmux --toggle-sort --walker --walker-root --walker-skip --with-nth --with-shell --wrap-sign -d -f -n -q`)

var valuePool = []string{"", "0", "1", "-1", "2", "10", "100", "99999999999", "-99999999999999999999", "1.5", "50%", "100%", "101%", "~50%", "~10", "-5", "a", "ab", "é", "日本", "▌", "xyz", " ", "  x ", ",", ":", "+", "..", "1..", "..2", "1..3", "-1", "2,3", "0", "1,,2", "{1} {2}", "{}", "{1..}", "\\t", "[,;]+", "(", "v1", "v2", "default", "path", "history", "reverse", "reverse-list", "hidden", "inline", "inline-right", "inline: > ", "right", "up:50%", "left,30%,border-left,wrap", "down:3:hidden", "~3,+{2}+3/3", "rounded", "sharp", "bold", "none", "line", "top", "fg:red", "fg:#ff0000,bg:-1", "bw", "dark,hl:33", "fg:#ff", "hl:999", "16", "ctrl-a:up", "a:execute(x)", "enter:abort,", "x", "ctrl-x,alt-y", "length,index", "begin,end", "index,length", "chunk", "file,dir", "follow", "file,hidden,follow", ".git", "sh -c", "center", "center,80%", "bottom,50%,border-native", "localhost:0", "0", "6266", "full", "minimal", "0:3", "3:0", "TRBL", "1,2,3,4", "1,2,3,4,5", "10%,20%", "|", "││", "\x00", "a\nb", "-", "--", "--no-sort", "load", "len"}

func randArgs(rng *rand.Rand) ([]string, string) {
	n := 1 + rng.Intn(5)
	var args, sig []string
	for i := 0; i < n; i++ {
		if rng.Intn(3) == 0 {
			f := flagOpts[rng.Intn(len(flagOpts))]
			args = append(args, f)
			sig = append(sig, f)
			continue
		}
		o := valueOpts[rng.Intn(len(valueOpts))]
		v := valuePool[rng.Intn(len(valuePool))]
		sig = append(sig, o)
		switch rng.Intn(4) {
		case 0:
			if strings.HasPrefix(o, "--") {
				args = append(args, o+"="+v)
			} else {
				args = append(args, o+v) // glued short form
			}
		case 1:
			args = append(args, o) // value missing or taken from the next word
		default:
			args = append(args, o, v)
		}
	}
	sort.Strings(sig)
	return args, strings.Join(sig, " ")
}

func safeParse(useDefaults bool, args []string) (opts *fzf.Options, err error, pan any, stack string) {
	defer func() {
		if e := recover(); e != nil {
			buf := make([]byte, 8192)
			buf = buf[:runtime.Stack(buf, false)]
			pan, stack = e, string(buf)
		}
	}()
	opts, err = fzf.ParseOptions(useDefaults, args)
	return
}

func worker(r *vk.Run, w, n int, args []string) {
	rng := rand.New(rand.NewSource(r.Seed*70001 + int64(w)*43 + 6))
	os.Unsetenv("FZF_DEFAULT_OPTS")
	os.Unsetenv("FZF_DEFAULT_OPTS_FILE")
	total := 2400000
	if !r.Quick() {
		total = 120000000
	}
	per := total / n
	bin, _ := fzfrun.Bin()
	procEvery := per / 40
	if !r.Quick() {
		procEvery = per / 1500
	}
	for i := 0; i < per; i++ {
		switch i % 4 {
		case 0, 1:
			argv, sig := randArgs(rng)
			vk.SetCase(map[string]any{"args": argv})
			_, err, pan, stack := safeParse(false, argv)
			r.Eval(1)
			r.Count("parse_calls", 1)
			if err != nil {
				r.Count("rejected", 1)
				if strings.TrimSpace(err.Error()) == "" {
					r.Violate(vk.Violation{Summary: fmt.Sprintf("C17: rejection without a message: %q", argv), Witness: map[string]any{"args": argv}})
				}
			}
			r.Distinct("opts " + sig)
			if pan != nil {
				r.Violate(vk.Violation{Summary: fmt.Sprintf("C17: ParseOptions panicked on %q: %v", argv, pan), Witness: map[string]any{"args": argv, "panic": fmt.Sprint(pan), "stack": stack}})
			}
			if procEvery > 0 && i%procEvery == 0 {
				procRun(r, bin, argv)
			}
		case 2:
			if i%8 == 2 {
				commute(r, rng)
			} else {
				override(r, rng)
			}
		case 3:
			bindRoundTrip(r, rng)
		}
		if i%2000 == 7 {
			layering(r, rng, w)
		}
	}
}

func procRun(r *vk.Run, bin string, argv []string) {
	for _, a := range argv {
		if strings.ContainsRune(a, 0) {
			return // cannot be passed through execve
		}
		if a == "--man" || strings.HasPrefix(a, "--profile") || strings.HasPrefix(a, "--proxy-script") || strings.HasPrefix(a, "--listen") || strings.HasPrefix(a, "--tmux") {
			return
		}
	}
	full := append(append([]string{}, argv...), "--filter", "x")
	res := fzfrun.Proc(bin, full, nil, 30*time.Second)
	if res.TimedOut {
		r.Inconclusive(fmt.Sprintf("fzf %q did not finish", full))
		return
	}
	r.Count("proc_runs", 1)
	crash := bytes.Contains(res.Stderr, []byte("panic:")) || bytes.Contains(res.Stderr, []byte("goroutine ")) || bytes.Contains(res.Stderr, []byte("fatal error:"))
	wit := map[string]any{"args": full, "exit": res.Code, "stderr": string(res.Stderr)}
	switch {
	case crash:
		r.Violate(vk.Violation{Summary: fmt.Sprintf("C17: fzf %q crashed (exit %d)", full, res.Code), Witness: wit})
	case res.Code == 2 && len(bytes.TrimSpace(res.Stderr)) == 0:
		r.Violate(vk.Violation{Summary: fmt.Sprintf("C17: fzf %q exit 2 without a message", full), Witness: wit})
	case res.Code != 0 && res.Code != 1 && res.Code != 2:
		r.Violate(vk.Violation{Summary: fmt.Sprintf("C17: fzf %q exit status %d", full, res.Code), Witness: wit})
	}
}

// ---- structural dump of Options (function-valued and positional fields excluded)

func dump(v reflect.Value, sb *strings.Builder, depth int) {
	if depth > 8 {
		sb.WriteString("...")
		return
	}
	switch v.Kind() {
	case reflect.Func, reflect.Chan, reflect.UnsafePointer:
		sb.WriteString("<fn>")
	case reflect.Ptr, reflect.Interface:
		if v.IsNil() {
			sb.WriteString("nil")
			return
		}
		if v.Type().String() == "*regexp.Regexp" {
			sb.WriteString("re:" + v.Elem().FieldByName("expr").String())
			return
		}
		sb.WriteString("&")
		dump(v.Elem(), sb, depth+1)
	case reflect.Struct:
		sb.WriteString("{")
		t := v.Type()
		for i := 0; i < v.NumField(); i++ {
			name := t.Field(i).Name
			if name == "index" {
				continue // position of the option in the argument vector
			}
			sb.WriteString(name + ":")
			f := v.Field(i)
			if !f.CanInterface() {
				dumpUnexported(f, sb, depth+1)
			} else {
				dump(f, sb, depth+1)
			}
			sb.WriteString(" ")
		}
		sb.WriteString("}")
	case reflect.Slice, reflect.Array:
		sb.WriteString("[")
		for i := 0; i < v.Len(); i++ {
			dump(v.Index(i), sb, depth+1)
			sb.WriteString(",")
		}
		sb.WriteString("]")
	case reflect.Map:
		keys := v.MapKeys()
		strs := make([]string, 0, len(keys))
		for _, k := range keys {
			var ks, vs strings.Builder
			dump(k, &ks, depth+1)
			dump(v.MapIndex(k), &vs, depth+1)
			strs = append(strs, ks.String()+"=>"+vs.String())
		}
		sort.Strings(strs)
		sb.WriteString("map[" + strings.Join(strs, ";") + "]")
	default:
		dumpUnexported(v, sb, depth)
	}
}

func dumpUnexported(v reflect.Value, sb *strings.Builder, depth int) {
	switch v.Kind() {
	case reflect.Bool:
		fmt.Fprint(sb, v.Bool())
	case reflect.Int, reflect.Int8, reflect.Int16, reflect.Int32, reflect.Int64:
		fmt.Fprint(sb, v.Int())
	case reflect.Uint, reflect.Uint8, reflect.Uint16, reflect.Uint32, reflect.Uint64:
		fmt.Fprint(sb, v.Uint())
	case reflect.Float32, reflect.Float64:
		fmt.Fprint(sb, v.Float())
	case reflect.String:
		fmt.Fprintf(sb, "%q", v.String())
	default:
		dump(v, sb, depth)
	}
}

func dumpOpts(o *fzf.Options) string {
	var sb strings.Builder
	dump(reflect.ValueOf(o).Elem(), &sb, 0)
	return sb.String()
}

// ---- (c) override law

type family struct {
	name    string
	members [][]string // each member is one or two words
}

// histPath: a history file inside the run's scratch directory (fzf creates the file when it parses the option).
func histPath(n int) string {
	return filepath.Join(vk.Scratch(), fmt.Sprintf("verif-h%d", n))
}

func valued(opt string, vals ...string) family {
	f := family{name: opt}
	for _, v := range vals {
		f.members = append(f.members, []string{opt, v}, []string{opt + "=" + v})
	}
	return f
}

func flags(name string, spellings ...string) family {
	f := family{name: name}
	for _, s := range spellings {
		f.members = append(f.members, []string{s})
	}
	return f
}

var families = []family{
	valued("--prompt", "a> ", "", "é "), valued("--pointer", ">", "", "=>"), valued("--marker", "*", "", "+"),
	valued("--tabstop", "1", "4", "8"), valued("--scroll-off", "0", "3"), valued("--hscroll-off", "0", "5", "10"),
	valued("--jump-labels", "abc", "123"), valued("--query", "", "foo", "a b"), valued("--delimiter", ",", "::", "[,;]+", "\\t"),
	valued("--tiebreak", "length", "begin,index", "end,length", "chunk", "index"), valued("--scheme", "default", "path", "history"),
	valued("--layout", "default", "reverse", "reverse-list"), valued("--info", "default", "inline", "hidden", "right", "inline-right"),
	valued("--margin", "0", "1,2", "10%", "1,2,3,4"), valued("--padding", "0", "1", "5%,2"),
	valued("--header-lines", "0", "1", "5"), valued("--tail", "1", "10"), valued("--history-size", "1", "10"),
	valued("--algo", "v1", "v2"), valued("--ellipsis", "..", "", "…"), valued("--separator", "-", "", "=="),
	valued("--scrollbar", "|", "", "x"), valued("--min-height", "1", "10"), valued("--height", "10", "50%", "~20", "100%"),
	valued("--nth", "1", "2..", "-1", "1,3"), valued("--gap", "1", "2"), valued("--border-label", "A", " b "),
	valued("--wrap-sign", ">", ">>"), valued("--walker-skip", "a", "a,b"), valued("--walker", "file", "dir,follow", "file,dir,hidden"),
	valued("--with-shell", "sh -c", "bash -c"), valued("--ghost", "type", ""), valued("--filter", "x", ""),
	valued("--border", "rounded", "sharp", "none", "top"), valued("--preview-label", "P", ""), valued("--header", "H", "a\nb"),
	flags("multi", "--multi", "-m", "+m", "--no-multi"), flags("ansi", "--ansi", "--no-ansi"), flags("cycle", "--cycle", "--no-cycle"),
	flags("tac", "--tac", "--no-tac"), flags("sort", "--no-sort", "+s"), flags("exact", "--exact", "-e", "+e", "--no-exact"),
	flags("case", "-i", "+i", "--ignore-case", "--no-ignore-case", "--smart-case"), flags("literal", "--literal", "--no-literal"),
	flags("read0", "--read0", "--no-read0"), flags("print0", "--print0", "--no-print0"), flags("print-query", "--print-query", "--no-print-query"),
	flags("select-1", "--select-1", "-1", "--no-select-1", "+1"), flags("exit-0", "--exit-0", "-0", "--no-exit-0", "+0"), flags("sync", "--sync", "--no-sync"),
	flags("track", "--track", "--no-track"), flags("wrap", "--wrap", "--no-wrap"), flags("keep-right", "--keep-right", "--no-keep-right"),
	flags("hscroll", "--hscroll", "--no-hscroll"), flags("header-first", "--header-first", "--no-header-first"),
	flags("highlight-line", "--highlight-line", "--no-highlight-line"), flags("clear", "--clear", "--no-clear"),
	flags("unicode", "--unicode", "--no-unicode"), flags("bold", "--bold", "--no-bold"), flags("black", "--black", "--no-black"),
	flags("mouse", "--no-mouse"), flags("extended", "-x", "--extended", "+x", "--no-extended"), flags("multi-line", "--multi-line", "--no-multi-line"),
	flags("filepath-word", "--filepath-word", "--no-filepath-word"), flags("ambidouble", "--ambidouble", "--no-ambidouble"),
	{name: "listen", members: [][]string{{"--listen=1234"}, {"--listen", "localhost:2345"}, {"--listen-unsafe=3456"}, {"--listen-unsafe", "0.0.0.0:4567"}, {"--no-listen"}, {"--no-listen-unsafe"}}},
	{name: "history", members: [][]string{{"--history=" + histPath(1)}, {"--history", histPath(2)}, {"--no-history"}}},
	{name: "preview", members: [][]string{{"--preview=echo {}"}, {"--preview", "cat {}"}, {"--no-preview"}}},
	// a --color value that names a base scheme starts from that scheme again (man page: BASE_SCHEME), so these override each other
	{name: "color", members: [][]string{{"--color=16,fg:1,bg:2"}, {"--color", "16"}, {"--color=dark,hl:3,fg:5"}, {"--color", "dark"}, {"--color=light,fg:4,pointer:6"}, {"--color=light"},
		{"--color=bw"}, {"--color=16,border:7,prompt:1"}, {"--color=dark,bg:-1"}, {"--no-256"}, {"+2"}, {"--no-color"}}},
}

// canaries: command lines whose meaning must not depend on what this process parsed before (the defaults
// file, $FZF_DEFAULT_OPTS and the command line are parsed one after the other in one process: state that
// leaks from one parse into the built-in tables is an earlier occurrence that keeps its effect).
var canaryVecs = [][]string{{}, {"--color=16"}, {"--color=dark"}, {"--color=light"}, {"--no-256"}, {"--color=bw"}, {"--bind", "a:up"}, {"--border"}, {"--preview-window=right"}, {"--walker=file"}, {"--style=full"}}
var canaryBase []string
var sinceCanary [][]string // command lines parsed since the canaries were last found intact

func checkCanaries(r *vk.Run, after []string) bool {
	first := canaryBase == nil
	for i, v := range canaryVecs {
		o, e, p, _ := safeParse(false, v)
		d := ""
		if p != nil || e != nil || o == nil {
			d = fmt.Sprintf("error=%v panic=%v", e, p)
		} else {
			d = dumpOpts(o)
		}
		if first {
			canaryBase = append(canaryBase, d)
			continue
		}
		r.Count("canary_parses", 1)
		if d != canaryBase[i] {
			r.Violate(vk.Violation{Summary: fmt.Sprintf("C17: after parsing %d command lines in the same process (the last one %q; all of them in the witness), %q no longer means what it meant before: %s", len(sinceCanary), after, v, firstDiff(canaryBase[i], d)),
				Witness: map[string]any{"parsed_since_the_canaries_were_intact": sinceCanary, "command_line": v, "difference": firstDiff(canaryBase[i], d)}})
			return false
		}
	}
	return true
}

func override(r *vk.Run, rng *rand.Rand) {
	f := families[rng.Intn(len(families))]
	m1 := f.members[rng.Intn(len(f.members))]
	m2 := f.members[rng.Intn(len(f.members))]
	pick := func() []string {
		var out []string
		k := rng.Intn(3)
		for i := 0; i < k; i++ {
			g := families[rng.Intn(len(families))]
			if g.name == f.name || interferes(g.name, f.name) {
				continue
			}
			out = append(out, g.members[rng.Intn(len(g.members))]...)
		}
		return out
	}
	A, B := pick(), pick()
	long := concat(A, m1, B, m2)
	short := concat(A, B, m2)
	vk.SetCase(map[string]any{"long": long, "short": short})
	if canaryBase == nil {
		checkCanaries(r, nil)
	}
	o2, e2, p2, _ := safeParse(false, short)
	o1, e1, p1, _ := safeParse(false, long)
	sinceCanary = append(sinceCanary, short, long)
	if f.name == "color" || rng.Intn(40) == 0 {
		ok := checkCanaries(r, long)
		sinceCanary = sinceCanary[:0]
		if !ok {
			return
		}
	}
	r.Eval(1)
	r.Count("override_pairs", 1)
	if p1 != nil || p2 != nil {
		r.Violate(vk.Violation{Summary: fmt.Sprintf("C17: ParseOptions panicked on %q / %q", long, short), Witness: map[string]any{"long": long, "short": short}})
		return
	}
	if (e1 != nil) != (e2 != nil) {
		r.Violate(vk.Violation{Summary: fmt.Sprintf("C17: %q is %v but %q is %v", long, errStr(e1), short, errStr(e2)), Witness: map[string]any{"long": long, "short": short}})
		return
	}
	if e1 != nil {
		return
	}
	r.Distinct("override " + f.name + " " + strings.Join(m1, "=") + " -> " + strings.Join(m2, "="))
	d1, d2 := dumpOpts(o1), dumpOpts(o2)
	if d1 != d2 {
		r.Violate(vk.Violation{Summary: fmt.Sprintf("C17: the earlier occurrence %q still has an effect: parse(%q) differs from parse(%q): %s", m1, long, short, firstDiff(d1, d2)),
			Witness: map[string]any{"long": long, "short": short, "difference": firstDiff(d1, d2)}})
	}
}

// commute: options of unrelated families may be given in either order (this is how a limit given
// before the thing it limits, e.g. --history-size before --history, must still apply).
func commute(r *vk.Run, rng *rand.Rand) {
	pool := append(append([]family{}, families...), valued("--history-size", "3", "7", "50"))
	f, g := pool[rng.Intn(len(pool))], pool[rng.Intn(len(pool))]
	if rng.Intn(6) == 0 {
		f, g = pool[len(pool)-1], family{name: "history", members: [][]string{{"--history=" + histPath(1)}, {"--history", histPath(2)}}}
	}
	if f.name == g.name || interferes(f.name, g.name) || f.name == "--height" || g.name == "--height" {
		return
	}
	m1, m2 := f.members[rng.Intn(len(f.members))], g.members[rng.Intn(len(g.members))]
	ab, ba := concat(m1, m2), concat(m2, m1)
	vk.SetCase(map[string]any{"ab": ab, "ba": ba})
	o1, e1, p1, _ := safeParse(false, ab)
	o2, e2, p2, _ := safeParse(false, ba)
	r.Eval(1)
	r.Count("commutation_pairs", 1)
	wit := map[string]any{"first_order": ab, "second_order": ba}
	if p1 != nil || p2 != nil {
		r.Violate(vk.Violation{Summary: fmt.Sprintf("C17: ParseOptions panicked on %q / %q", ab, ba), Witness: wit})
		return
	}
	if (e1 != nil) != (e2 != nil) {
		r.Violate(vk.Violation{Summary: fmt.Sprintf("C17: %q is %v but %q is %v", ab, errStr(e1), ba, errStr(e2)), Witness: wit})
		return
	}
	if e1 != nil {
		return
	}
	r.Distinct("commute " + f.name + " / " + g.name)
	if d1, d2 := dumpOpts(o1), dumpOpts(o2); d1 != d2 {
		wit["difference"] = firstDiff(d1, d2)
		r.Violate(vk.Violation{Summary: fmt.Sprintf("C17: unrelated options do not commute: parse(%q) differs from parse(%q): %s", ab, ba, firstDiff(d1, d2)), Witness: wit})
	}
}

// interferes: options whose effect depends on another family's value
func interferes(a, b string) bool {
	pairs := [][2]string{{"--scheme", "--tiebreak"}, {"exact", "extended"}, {"--border", "--border-label"}, {"--height", "--min-height"}, {"--filter", "sort"}, {"sort", "tac"}}
	for _, p := range pairs {
		if a == p[0] && b == p[1] || a == p[1] && b == p[0] {
			return true
		}
	}
	return false
}

func errStr(e error) string {
	if e == nil {
		return "accepted"
	}
	return "rejected (" + e.Error() + ")"
}

func concat(parts ...[]string) []string {
	var out []string
	for _, p := range parts {
		out = append(out, p...)
	}
	return out
}

func firstDiff(a, b string) string {
	i := 0
	for i < len(a) && i < len(b) && a[i] == b[i] {
		i++
	}
	s := i - 60
	if s < 0 {
		s = 0
	}
	ea, eb := i+60, i+60
	if ea > len(a) {
		ea = len(a)
	}
	if eb > len(b) {
		eb = len(b)
	}
	return fmt.Sprintf("...%s... vs ...%s...", a[s:ea], b[s:eb])
}

// ---- (d) layering: file < $FZF_DEFAULT_OPTS < argv

// optIndex reads the position fzf recorded for --height / --tmux (used by Run to decide which of the two wins).
func optIndex(o *fzf.Options, field string) (int64, bool) {
	v := reflect.ValueOf(o).Elem().FieldByName(field)
	if !v.IsValid() {
		return 0, false
	}
	if v.Kind() == reflect.Ptr {
		if v.IsNil() {
			return 0, false
		}
		v = v.Elem()
	}
	f := v.FieldByName("index")
	if !f.IsValid() {
		return 0, false
	}
	return f.Int(), true
}

// positional: --height and --tmux override each other by position; a later layer must count as later.
func positional(r *vk.Run, rng *rand.Rand, file string) {
	names := []string{"Height", "Tmux"}
	words := [][]string{{"--height=40%"}, {"--tmux=center"}}
	lowIs := rng.Intn(2)
	low, high := words[lowIs], words[1-lowIs]
	filler := ""
	for i := 0; i < rng.Intn(14); i++ {
		filler += " --no-mouse"
	}
	layers := [][2]int{{0, 1}, {0, 2}, {1, 2}}[rng.Intn(3)] // which layers hold low / high: 0 file, 1 env, 2 argv
	os.Unsetenv("FZF_DEFAULT_OPTS_FILE")
	os.Unsetenv("FZF_DEFAULT_OPTS")
	var argv []string
	put := func(layer int, w []string, pad string) {
		switch layer {
		case 0:
			os.WriteFile(file, []byte(pad+" "+shellJoin(w)+"\n"), 0o644)
			os.Setenv("FZF_DEFAULT_OPTS_FILE", file)
		case 1:
			os.Setenv("FZF_DEFAULT_OPTS", strings.TrimSpace(pad+" "+shellJoin(w)))
		case 2:
			argv = append(strings.Fields(pad), w...)
		}
	}
	if layers[0] == 0 && rng.Intn(2) == 0 {
		// an unrelated options file in front, so that three sources are in play
		put(layers[0], low, filler)
	} else {
		put(layers[0], low, filler)
	}
	if layers[0] != 0 && rng.Intn(2) == 0 {
		os.WriteFile(file, []byte(strings.TrimSpace(filler+" --no-mouse --no-mouse")+"\n"), 0o644)
		os.Setenv("FZF_DEFAULT_OPTS_FILE", file)
	}
	put(layers[1], high, "")
	o, err, pan, _ := safeParse(true, argv)
	os.Unsetenv("FZF_DEFAULT_OPTS_FILE")
	os.Unsetenv("FZF_DEFAULT_OPTS")
	r.Count("layering_cases", 1)
	r.Eval(1)
	wit := map[string]any{"lower_layer": layers[0], "higher_layer": layers[1], "lower": low, "higher": high, "filler_words": len(strings.Fields(filler)), "argv": argv}
	if pan != nil || err != nil {
		r.Violate(vk.Violation{Summary: fmt.Sprintf("C17: layered parse failed: %v %v", pan, err), Witness: wit})
		return
	}
	li, ok1 := optIndex(o, names[lowIs])
	hi, ok2 := optIndex(o, names[1-lowIs])
	if !ok1 || !ok2 {
		r.Inconclusive("positional index fields not found")
		return
	}
	r.Distinct(fmt.Sprintf("positional %s<%s layers %v", names[lowIs], names[1-lowIs], layers))
	if !(hi > li) {
		wit["lower_index"], wit["higher_index"] = li, hi
		r.Violate(vk.Violation{Summary: fmt.Sprintf("C17: %s given in a later source does not count as later than %s given in an earlier one (positions %d vs %d): the earlier occurrence wins", high, low, hi, li), Witness: wit})
	}
}

func layering(r *vk.Run, rng *rand.Rand, w int) {
	dir := filepath.Join(vk.Scratch(), fmt.Sprintf("optsfile-%d-%d", os.Getpid(), w))
	os.MkdirAll(dir, 0o755)
	defer os.RemoveAll(dir)
	file := filepath.Join(dir, "opts")
	for k := 0; k < 6; k++ {
		positional(r, rng, file)
	}
	malformed(r, rng, file)
	for k := 0; k < 4; k++ {
		concatLaw(r, rng, file)
	}
	fams := []family{valued("--prompt", "F> ", "E> ", "A> "), valued("--tabstop", "2", "3", "5"), valued("--layout", "default", "reverse", "reverse-list"), valued("--query", "f", "e", "a"), valued("--height", "11", "22%", "33")}
	f := fams[rng.Intn(len(fams))]
	vals := [][]string{f.members[0], f.members[2], f.members[4]} // file, env, argv values
	// many filler words in the file so that argument positions differ across layers
	filler := ""
	for i := 0; i < rng.Intn(12); i++ {
		filler += " --no-mouse"
	}
	for mask := 1; mask < 8; mask++ {
		useFile, useEnv, useArg := mask&1 != 0, mask&2 != 0, mask&4 != 0
		os.Unsetenv("FZF_DEFAULT_OPTS_FILE")
		os.Unsetenv("FZF_DEFAULT_OPTS")
		if useFile {
			os.WriteFile(file, []byte(shellJoin(vals[0])+filler+"\n"), 0o644)
			os.Setenv("FZF_DEFAULT_OPTS_FILE", file)
		}
		if useEnv {
			os.Setenv("FZF_DEFAULT_OPTS", shellJoin(vals[1]))
		}
		var argv []string
		if useArg {
			argv = vals[2]
		}
		got, err, pan, _ := safeParse(true, argv)
		// expectation: the highest layer present, parsed alone
		win := vals[0]
		if useEnv {
			win = vals[1]
		}
		if useArg {
			win = vals[2]
		}
		os.Unsetenv("FZF_DEFAULT_OPTS_FILE")
		os.Unsetenv("FZF_DEFAULT_OPTS")
		extra := []string{}
		if useFile {
			extra = strings.Fields(filler)
		}
		want, err2, _, _ := safeParse(false, concat(extra, win))
		r.Count("layering_cases", 1)
		r.Eval(1)
		wit := map[string]any{"family": f.name, "file": useFile, "env": useEnv, "argv": useArg, "values": vals}
		if pan != nil || err != nil || err2 != nil {
			r.Violate(vk.Violation{Summary: fmt.Sprintf("C17: layered parse failed: %v %v %v", pan, err, err2), Witness: wit})
			continue
		}
		if a, b := dumpOpts(got), dumpOpts(want); a != b {
			wit["difference"] = firstDiff(a, b)
			r.Violate(vk.Violation{Summary: fmt.Sprintf("C17: precedence file < $FZF_DEFAULT_OPTS < argv violated for %s (file=%v env=%v argv=%v): %s", f.name, useFile, useEnv, useArg, firstDiff(a, b)), Witness: wit})
		}
		r.Distinct(fmt.Sprintf("layer %s %d", f.name, mask))
	}
}

// concatLaw: the three sources are one command line read in the order file, $FZF_DEFAULT_OPTS, argv:
// whatever well-formed words they hold, the configuration must be the one obtained from their
// concatenation given as argv (so an option of an earlier source stays in force unless a later
// source overrides it, also when the two belong to cooperating options such as --history-size / --history).
func concatLaw(r *vk.Run, rng *rand.Rand, file string) {
	pool := append(append([]family{}, families...), valued("--history-size", "3", "7", "50"), valued("--preview-window", "up", "hidden", "right,30%"), valued("--bind", "ctrl-a:up", "ctrl-a:+down", "a,b:put"))
	pick := func() []string {
		var out []string
		for i := 0; i < rng.Intn(4); i++ {
			g := pool[rng.Intn(len(pool))]
			out = append(out, g.members[rng.Intn(len(g.members))]...)
		}
		return out
	}
	layers := [3][]string{pick(), pick(), pick()}
	for i := range layers {
		for _, w := range layers[i] {
			if strings.ContainsAny(w, "\n#") {
				layers[i] = nil // (comments and line breaks are a matter of the file syntax, not of precedence)
			}
		}
	}
	os.Unsetenv("FZF_DEFAULT_OPTS_FILE")
	os.Unsetenv("FZF_DEFAULT_OPTS")
	if len(layers[0]) > 0 {
		os.WriteFile(file, []byte(shellJoin(layers[0])+"\n"), 0o644)
		os.Setenv("FZF_DEFAULT_OPTS_FILE", file)
	}
	if len(layers[1]) > 0 {
		os.Setenv("FZF_DEFAULT_OPTS", shellJoin(layers[1]))
	}
	got, err1, pan1, _ := safeParse(true, layers[2])
	os.Unsetenv("FZF_DEFAULT_OPTS_FILE")
	os.Unsetenv("FZF_DEFAULT_OPTS")
	all := concat(layers[0], layers[1], layers[2])
	want, err2, pan2, _ := safeParse(false, all)
	r.Eval(1)
	r.Count("layering_cases", 1)
	r.Count("concatenation_cases", 1)
	wit := map[string]any{"file": layers[0], "env": layers[1], "argv": layers[2]}
	if pan1 != nil || pan2 != nil {
		r.Violate(vk.Violation{Summary: fmt.Sprintf("C17: ParseOptions panicked on layered sources %v / %v / %v: %v %v", layers[0], layers[1], layers[2], pan1, pan2), Witness: wit})
		return
	}
	if (err1 != nil) != (err2 != nil) {
		r.Violate(vk.Violation{Summary: fmt.Sprintf("C17: file %q + $FZF_DEFAULT_OPTS %q + argv %q is %s, the same words on one command line are %s", layers[0], layers[1], layers[2], errStr(err1), errStr(err2)), Witness: wit})
		return
	}
	if err1 != nil {
		return
	}
	var sig []string
	for _, l := range layers {
		for _, w := range l {
			if strings.HasPrefix(w, "-") || strings.HasPrefix(w, "+") {
				sig = append(sig, strings.SplitN(w, "=", 2)[0])
			}
		}
		sig = append(sig, "/")
	}
	r.Distinct("concat " + strings.Join(sig, " "))
	if a, b := dumpOpts(got), dumpOpts(want); a != b {
		wit["difference"] = firstDiff(a, b)
		key := ""
		if strings.Contains(firstDiff(a, b), "maxSize") {
			key = "F31-history-size-lost-across-sources"
		}
		r.Violate(vk.Violation{Key: key, Summary: fmt.Sprintf("C17: file %q + $FZF_DEFAULT_OPTS %q + argv %q does not give the configuration of the same words on one command line: %s", layers[0], layers[1], layers[2], firstDiff(a, b)), Witness: wit})
	}
}

// malformed: an options file or $FZF_DEFAULT_OPTS that cannot be split into words (unterminated quote)
// must be rejected with a message, never ignored.
func malformed(r *vk.Run, rng *rand.Rand, file string) {
	good := []string{"--tac", "--no-mouse", "--prompt 'p> '", "--bind 'ctrl-a:up'", "# comment\n--cycle", "--header \"h\""}
	bad := []string{"--prompt 'abc", "--header \"it's", "--bind 'ctrl-a:up", "--query \"x", "'"}
	var parts []string
	for i := 0; i < rng.Intn(3); i++ {
		parts = append(parts, good[rng.Intn(len(good))])
	}
	parts = append(parts, bad[rng.Intn(len(bad))])
	sep := []string{" ", "\n"}[rng.Intn(2)]
	content := strings.Join(parts, sep)
	if strings.Contains(content, "#") {
		sep = "\n"
		content = strings.Join(parts, sep)
	}
	layer := rng.Intn(2)
	os.Unsetenv("FZF_DEFAULT_OPTS_FILE")
	os.Unsetenv("FZF_DEFAULT_OPTS")
	if layer == 0 {
		os.WriteFile(file, []byte(content+"\n"), 0o644)
		os.Setenv("FZF_DEFAULT_OPTS_FILE", file)
	} else {
		os.Setenv("FZF_DEFAULT_OPTS", content)
	}
	_, err, pan, _ := safeParse(true, nil)
	os.Unsetenv("FZF_DEFAULT_OPTS_FILE")
	os.Unsetenv("FZF_DEFAULT_OPTS")
	r.Eval(1)
	r.Count("layering_cases", 1)
	r.Count("malformed_sources", 1)
	r.Distinct(fmt.Sprintf("malformed source layer%d %q", layer, parts[len(parts)-1]))
	wit := map[string]any{"layer": []string{"options file", "$FZF_DEFAULT_OPTS"}[layer], "content": content}
	if pan != nil {
		r.Violate(vk.Violation{Summary: fmt.Sprintf("C17: ParseOptions panicked on a malformed %s: %v", wit["layer"], pan), Witness: wit})
	} else if err == nil {
		r.Violate(vk.Violation{Summary: fmt.Sprintf("C17: a %s with an unterminated quote (%q) is accepted silently instead of being rejected", wit["layer"], content), Witness: wit})
	}
}

func shellJoin(words []string) string {
	var out []string
	for _, w := range words {
		out = append(out, "'"+strings.ReplaceAll(w, "'", `'\''`)+"'")
	}
	return strings.Join(out, " ")
}

// ---- (e) bind round trip

var simpleActions = strings.Fields(`abort accept accept-non-empty accept-or-print-query backward-char backward-delete-char backward-kill-word backward-word beginning-of-line cancel clear-screen clear-query clear-selection close delete-char deselect deselect-all down end-of-line first forward-char forward-word half-page-down half-page-up ignore jump kill-line kill-word last next-history next-selected page-down page-up prev-history prev-selected preview-down preview-up print-query refresh-preview replace-query select select-all toggle toggle-all toggle-down toggle-in toggle-out toggle-preview toggle-search toggle-sort toggle-track toggle-up unix-line-discard unix-word-rubout up yank exclude bell show-header hide-header toggle-header toggle-wrap toggle-multi-line`)

var argActions = strings.Fields(`execute execute-silent execute-multi reload reload-sync preview change-preview change-prompt change-query change-header change-border-label change-list-label change-preview-label change-input-label change-header-label change-ghost change-pointer become transform transform-query transform-prompt transform-header transform-search transform-nth transform-ghost transform-pointer transform-border-label print search put`)

var argAlpha = []string{"a", "b", "x y", " ", "é", "日本", "(", ")", "[", "]", "{", "}", "<", ">", "~", "!", "@", "#", "$", "%", "^", "&", "*", ";", "/", "|", ":", "+", ",", "'", "\"", "\\", "\n", "{}", "{q}", "echo", "execute(", "+abort", ",ctrl-a:", "::"}

type form struct{ open, close string }

var forms = []form{{"(", ")"}, {"[", "]"}, {"{", "}"}, {"<", ">"}, {"~", "~"}, {"!", "!"}, {"@", "@"}, {"#", "#"}, {"$", "$"}, {"%", "%"}, {"^", "^"}, {"&", "&"}, {"*", "*"}, {";", ";"}, {"/", "/"}, {"|", "|"}}

var keyNames = []string{"ctrl-a", "ctrl-x", "alt-b", "alt-enter", "f1", "f12", "enter", "esc", "tab", "btab", "space", "bspace", "up", "down", "left", "right", "home", "end", "page-up", "del", "a", "Z", "9", "é", "alt-,", "ctrl-]", "ctrl-/", "ctrl-space", "shift-left", "alt-up", "double-click", "left-click", "change", "start", "load", "focus", "one", "zero", "result", "resize", "backward-eof", "jump", "jump-cancel", "click-header"}

type genAction struct {
	text string // as written in the specification
	name string
	arg  string
	has  bool
}

func genArg(rng *rand.Rand) string {
	n := rng.Intn(5)
	var sb strings.Builder
	for i := 0; i < n; i++ {
		sb.WriteString(argAlpha[rng.Intn(len(argAlpha))])
	}
	return sb.String()
}

func bindRoundTrip(r *vk.Run, rng *rand.Rand) {
	nb := 1 + rng.Intn(3)
	type binding struct {
		keys    []string
		actions []genAction
		appendP bool
	}
	var bindings []binding
	var specParts []string
	usedColonForm := false
	putRejected := false
	formSig := map[string]bool{}
	for b := 0; b < nb && !usedColonForm; b++ {
		var bd binding
		nk := 1
		if rng.Intn(4) == 0 {
			nk = 2
		}
		if rng.Intn(12) == 0 {
			// punctuation keys only alone
			bd.keys = []string{[]string{",", ":", "+"}[rng.Intn(3)]}
			formSig["punct-key"] = true
		} else {
			for k := 0; k < nk; k++ {
				bd.keys = append(bd.keys, keyNames[rng.Intn(len(keyNames))])
			}
			for _, k := range bd.keys {
				if strings.HasSuffix(k, ",") { // a key name ending in a comma is only unambiguous alone
					bd.keys = []string{k}
				}
			}
		}
		if len(bd.keys[0]) > 1 && rng.Intn(5) == 0 {
			bd.appendP = true
			formSig["+prefix"] = true
		}
		na := 1 + rng.Intn(3)
		var texts []string
		for a := 0; a < na; a++ {
			last := b == nb-1 && a == na-1
			if rng.Intn(14) == 0 {
				// put without an argument inserts the key itself: only valid when every key of the pair is printable
				bd.actions = append(bd.actions, genAction{text: "put", name: "put"})
				texts = append(texts, "put")
				formSig["bare-put"] = true
				for _, k := range bd.keys {
					if ev, ok := keyEvent(k); !ok || !(ev.Type == tui.Rune && unicode.IsGraphic(ev.Char)) {
						putRejected = true
					}
				}
				continue
			}
			if rng.Intn(2) == 0 {
				n := simpleActions[rng.Intn(len(simpleActions))]
				bd.actions = append(bd.actions, genAction{text: n, name: n})
				texts = append(texts, n)
				continue
			}
			n := argActions[rng.Intn(len(argActions))]
			if n == "put" {
				// put without argument needs a printable key; with argument it is free
			}
			arg := genArg(rng)
			// choose a form able to carry the argument
			var cands []form
			for _, f := range forms {
				if !strings.Contains(arg, f.close+"+") && !strings.Contains(arg, f.close+",") {
					cands = append(cands, f)
				}
			}
			var text string
			if last && rng.Intn(3) == 0 || len(cands) == 0 {
				if !last {
					// no form can carry it here: fall back to a plain argument
					arg = "plain"
					cands = forms
					f := cands[rng.Intn(len(cands))]
					text = n + f.open + arg + f.close
					formSig[f.open] = true
				} else {
					text = n + ":" + arg
					usedColonForm = true
					formSig[":"] = true
				}
			} else {
				f := cands[rng.Intn(len(cands))]
				text = n + f.open + arg + f.close
				formSig[f.open] = true
			}
			bd.actions = append(bd.actions, genAction{text: text, name: n, arg: arg, has: true})
			texts = append(texts, text)
		}
		bindings = append(bindings, bd)
		pre := ""
		if bd.appendP {
			pre = "+"
		}
		specParts = append(specParts, strings.Join(bd.keys, ",")+":"+pre+strings.Join(texts, "+"))
	}
	spec := strings.Join(specParts, ",")
	vk.SetCase(map[string]any{"bind": spec})
	km, err := fzf.VerifParseKeymap(spec)
	r.Eval(1)
	r.Count("bind_roundtrips", 1)
	wit := map[string]any{"bind": spec, "bind_quoted": fmt.Sprintf("%q", spec)}
	if putRejected {
		r.Count("bind_put_rejections", 1)
		if err == nil {
			r.Violate(vk.Violation{Summary: fmt.Sprintf("C17: --bind %q binds an argument-less put to a key that is not a printable character and is accepted", spec), Witness: wit})
		}
		return
	}
	if err != nil {
		r.Violate(vk.Violation{Summary: fmt.Sprintf("C17: generated bind specification rejected: %q: %v", spec, err), Witness: wit})
		return
	}
	// expected keymap: later bindings of the same key replace earlier ones
	expect := map[tui.Event][]fzf.VerifAction{}
	for _, bd := range bindings {
		var acts []fzf.VerifAction
		for _, a := range bd.actions {
			if a.name == "put" && !a.has {
				iso, err := fzf.VerifParseKeymap("a:put")
				if err != nil || len(iso) != 1 {
					r.Inconclusive("cannot parse a:put in isolation")
					return
				}
				for _, v := range iso {
					acts = append(acts, v...)
				}
				continue
			}
			if a.has {
				iso, err := fzf.VerifParseActionList(a.name + "(x)")
				if err != nil || len(iso) != 1 {
					r.Inconclusive("cannot parse " + a.name + " in isolation")
					return
				}
				acts = append(acts, fzf.VerifAction{Type: iso[0].Type, Arg: a.arg})
			} else {
				iso, err := fzf.VerifParseActionList(a.name)
				if err != nil {
					r.Inconclusive("cannot parse " + a.name + " in isolation")
					return
				}
				acts = append(acts, iso...)
			}
		}
		for _, k := range bd.keys {
			ev, ok := keyEvent(k)
			if !ok {
				r.Inconclusive("cannot parse key " + k)
				return
			}
			if bd.appendP {
				// "+" in front of the list: appended to what the key was bound to before
				expect[ev] = append(append([]fzf.VerifAction{}, expect[ev]...), acts...)
			} else {
				expect[ev] = acts
			}
		}
	}
	keys := make([]string, 0, len(formSig))
	for k := range formSig {
		keys = append(keys, k)
	}
	sort.Strings(keys)
	r.Distinct("bind forms " + strings.Join(keys, "") + fmt.Sprintf(" n%d", nb))
	for ev, want := range expect {
		got := km[ev]
		if !reflect.DeepEqual(got, want) {
			wit["key"] = fmt.Sprintf("%+v", ev)
			wit["got"] = got
			wit["expected"] = want
			r.Violate(vk.Violation{Summary: fmt.Sprintf("C17: --bind %q: key %+v got %+v, expected %+v", spec, ev, got, want), Witness: wit})
			return
		}
	}
	if len(km) != len(expect) {
		wit["got_keys"] = len(km)
		wit["expected_keys"] = len(expect)
		r.Violate(vk.Violation{Summary: fmt.Sprintf("C17: --bind %q: %d keys bound, %d expected", spec, len(km), len(expect)), Witness: wit})
	}
	if rng.Intn(3000) == 0 {
		r.Sample(wit)
	}
}

func keyEvent(name string) (tui.Event, bool) {
	km, err := fzf.VerifParseKeymap(name + ":ignore")
	if err != nil || len(km) != 1 {
		return tui.Event{}, false
	}
	for k := range km {
		return k, true
	}
	return tui.Event{}, false
}

module verif/harness

go 1.20

require (
	github.com/anishathalye/porcupine v1.3.0
	github.com/junegunn/fzf v0.0.0
)

require (
	github.com/charlievieth/fastwalk v1.0.10 // indirect
	github.com/junegunn/go-shellwords v0.0.0-20250127100254-2aa3b3277741 // indirect
	github.com/mattn/go-isatty v0.0.20 // indirect
	github.com/rivo/uniseg v0.4.7 // indirect
	golang.org/x/sys v0.30.0 // indirect
	golang.org/x/term v0.29.0 // indirect
)

replace github.com/junegunn/fzf => /repo

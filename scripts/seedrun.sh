#!/bin/bash
# seedrun.sh <seed-dir> <property> [tier]: apply a seeded change to /repo, run the check, undo it.
# Prints "CAUGHT|MISSED <name> by <property>" (CAUGHT = the check exited 1 with a VIOLATION line).
d="${1:?seed dir}"; prop="${2:?property}"; tier="${3:-quick}"; name="$(basename "$d")"
V="${VERIF_HOME:-/verif}"; R="${REPO_HOME:-/repo}"   # (an isolated copy of both can be used, see isolated_matrix.sh)
cd "$R" || exit 2
if [ -n "$(git status --porcelain --untracked-files=no)" ]; then echo "refusing: $R has uncommitted changes"; exit 2; fi
undo() { git -C "$R" reset -q; git -C "$R" checkout -q -- . ; }
trap undo EXIT
if ! git apply "$d/patch.diff" 2>/dev/null; then
  git apply --3way "$d/patch.diff" >/dev/null 2>&1 || { echo "NOAPPLY $name"; exit 2; }
  git reset -q
fi
out="$(cd "$V" && VERIF_REPO="$R" VERIF_EVIDENCE_DIR=/tmp/seedv/evidence ./check "$prop" "$tier" 2>&1)"; rc=$?
undo
res=MISSED
if [ $rc -eq 1 ] && echo "$out" | grep -q "^VIOLATION property=$prop"; then res=CAUGHT; fi
if [ -f "$V/seeded/$name/meta.json" ]; then
  python3 - "$name" "$prop" "$tier" "$res" "$V" <<'PY'
import json,sys
name,prop,tier,res,V=sys.argv[1:6]
p=f"{V}/seeded/{name}/meta.json"; m=json.load(open(p))
runs=[r for r in m.get("runs",[]) if not (r["check"]==prop and r["tier"]==tier)]
runs.append({"check":prop,"tier":tier,"result":res})
m["runs"]=runs; json.dump(m,open(p,"w"),indent=1)
PY
fi
if [ $res = CAUGHT ]; then
  echo "CAUGHT $name by $prop ($tier): $(echo "$out" | grep -A1 '^VIOLATION' | sed -n 2p | cut -c1-200)"
else
  echo "MISSED $name by $prop ($tier) rc=$rc: $(echo "$out" | tail -1 | cut -c1-200)"
fi

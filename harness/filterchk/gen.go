// Package filterchk decides the filter-level properties (C01 exactness, C04
// order, C05 sub-list consistency, C07 filter-mode framing) on the real fzf,
// in library mode and as a process.
package filterchk

import (
	"fmt"
	"math/rand"
	"strings"

	"verif/harness/refq"
)

var lineAlpha = []rune{'a', 'a', 'b', 'b', 'A', 'B', 'é', 'É', 'ö', '1', '_', '-', '/', '.', ' ', ' ', '^', '$', '\'', '!', '|'}
var bodyAlpha = []rune{'a', 'b', 'A', 'B', 'é', 'É', 'ö', 'o', 'e', '1', '_', '-', '/', '.'}

// Gen generates workloads. Scheme is fixed for the lifetime of a worker process:
// algo.Init keeps package-level state that is only initialised once per fzf
// process, so one process must not mix schemes in library mode.
type Gen struct {
	R      *rand.Rand
	Scheme string
}

var workerSchemes = []string{"", "default", "path", "history"}

func NewGen(r *rand.Rand, w int) *Gen { return &Gen{R: r, Scheme: workerSchemes[w%len(workerSchemes)]} }

func (g *Gen) Line(max int) string {
	n := g.R.Intn(max + 1)
	if g.R.Intn(40) == 0 {
		n = 150 + g.R.Intn(200)
	}
	rs := make([]rune, n)
	ws := g.R.Intn(25) == 0 // whitespace-only
	for i := range rs {
		if ws {
			rs[i] = []rune{' ', '\t'}[g.R.Intn(2)]
		} else {
			rs[i] = lineAlpha[g.R.Intn(len(lineAlpha))]
		}
	}
	return string(rs)
}

func (g *Gen) Lines(n, max int) []string {
	out := make([]string, n)
	for i := range out {
		out[i] = g.Line(max)
	}
	return out
}

// Body is a term body: 1..3 symbols, possibly with an escaped space inside.
// Returned as typed in the query (escaped) form.
func (g *Gen) Body() string {
	n := 1 + g.R.Intn(3)
	var sb strings.Builder
	for i := 0; i < n; i++ {
		if g.R.Intn(12) == 0 {
			sb.WriteString("\\ ")
			continue
		}
		sb.WriteRune(bodyAlpha[g.R.Intn(len(bodyAlpha))])
	}
	return sb.String()
}

var kindFmt = []string{"%s", "'%s", "'%s'", "^%s", "%s$", "^%s$"}

// Term returns a well-formed term and its kind signature.
func (g *Gen) Term() (string, string) {
	k := g.R.Intn(len(kindFmt))
	b := g.Body()
	t := fmt.Sprintf(kindFmt[k], b)
	sig := refq.KindNames[k]
	if g.R.Intn(4) == 0 {
		t = "!" + t
		sig = "!" + sig
	}
	return t, sig
}

// Query: 1..3 AND groups of 1..3 alternatives. Returns the query and a signature of its shape.
func (g *Gen) Query() (string, string) {
	ng := 1 + g.R.Intn(3)
	if g.R.Intn(3) != 0 {
		ng = 1 + g.R.Intn(2)
	}
	var groups, sigs []string
	for i := 0; i < ng; i++ {
		na := 1
		if g.R.Intn(3) == 0 {
			na = 2 + g.R.Intn(2)
		}
		var alts, asig []string
		for j := 0; j < na; j++ {
			t, s := g.Term()
			alts = append(alts, t)
			asig = append(asig, s)
		}
		groups = append(groups, strings.Join(alts, " | "))
		sigs = append(sigs, strings.Join(asig, "|"))
	}
	sep := " "
	if g.R.Intn(10) == 0 {
		sep = "  "
	}
	q := strings.Join(groups, sep)
	if g.R.Intn(15) == 0 {
		q = " " + q
	}
	if g.R.Intn(15) == 0 {
		q = q + " "
	}
	return q, strings.Join(sigs, " ")
}

// QueryFor derives a query likely to match some of the lines (bodies cut from them).
func (g *Gen) QueryFor(lines []string) (string, string) {
	if len(lines) == 0 || g.R.Intn(3) == 0 {
		return g.Query()
	}
	l := []rune(lines[g.R.Intn(len(lines))])
	var clean []rune
	for _, r := range l {
		if strings.ContainsRune("^$'!| \t\\", r) {
			continue
		}
		clean = append(clean, r)
	}
	if len(clean) == 0 {
		return g.Query()
	}
	s := g.R.Intn(len(clean))
	e := s + 1 + g.R.Intn(3)
	if e > len(clean) {
		e = len(clean)
	}
	body := string(clean[s:e])
	if g.R.Intn(2) == 0 {
		body = strings.ToLower(body)
	}
	k := g.R.Intn(len(kindFmt))
	t := fmt.Sprintf(kindFmt[k], body)
	sig := refq.KindNames[k]
	if g.R.Intn(5) == 0 {
		t = "!" + t
		sig = "!" + sig
	}
	if g.R.Intn(2) == 0 {
		t2, s2 := g.Term()
		if g.R.Intn(2) == 0 {
			return t + " " + t2, sig + " " + s2
		}
		return t + " | " + t2, sig + "|" + s2
	}
	return t, sig
}

// Options for the matching semantics. Returns argv fragments and the reference options.
type OptSet struct {
	Args   []string
	Ref    refq.Opts
	NoSort bool
	Tac    bool
	Tie    string
	Scheme string
	AlgoV1 bool
	Sig    string
}

var tiebreaks = []string{"", "length", "begin", "end", "chunk", "index", "pathname", "length,begin", "end,length", "begin,end,index", "chunk,length", "pathname,length"}

func (g *Gen) Options() OptSet {
	o := OptSet{Ref: refq.Opts{Extended: true, Case: "smart"}}
	if g.R.Intn(4) == 0 {
		o.Args = append(o.Args, "--exact")
		o.Ref.Exact = true
	}
	if g.R.Intn(8) == 0 {
		o.Args = append(o.Args, "+x")
		o.Ref.Extended = false
	}
	switch g.R.Intn(5) {
	case 0:
		o.Args = append(o.Args, "-i")
		o.Ref.Case = "ignore"
	case 1:
		o.Args = append(o.Args, "+i")
		o.Ref.Case = "respect"
	}
	if g.R.Intn(4) == 0 {
		o.Args = append(o.Args, "--literal")
		o.Ref.Literal = true
	}
	switch g.R.Intn(4) {
	case 0:
		o.Args = append(o.Args, "--algo=v1")
		o.AlgoV1 = true
	case 1:
		o.Args = append(o.Args, "--algo=v2")
	}
	if g.R.Intn(3) == 0 {
		o.Args = append(o.Args, "--no-sort")
		o.NoSort = true
	}
	if g.R.Intn(4) == 0 {
		o.Args = append(o.Args, "--tac")
		o.Tac = true
	}
	if s := g.Scheme; s != "" {
		o.Args = append(o.Args, "--scheme="+s)
		o.Scheme = s
	}
	if t := tiebreaks[g.R.Intn(len(tiebreaks))]; t != "" && g.R.Intn(2) == 0 {
		o.Args = append(o.Args, "--tiebreak="+t)
		o.Tie = t
	}
	o.Sig = strings.Join(o.Args, " ")
	return o
}

package matchchk

import (
	"fmt"
	"math/rand"
	"os"
	"path/filepath"
	"strings"
	"sync"
	"sync/atomic"
	"time"

	fzf "github.com/junegunn/fzf/src"
	"github.com/junegunn/fzf/src/util"

	"verif/harness/fzfrun"
	"verif/harness/vk"
)

func init() {
	vk.RegisterWorker("c13", workerC13)
}

func MainC13(prop, tier string) int {
	r := vk.New("C13", tier)
	r.Rule = "real ChunkList + Matcher.Loop + Merger + caches, harness as loader and coordinator, whole run under the Go race detector: (1) stress: items with index-derived unique content are pushed while snapshots (with/without --tail) are taken and Reset(retry|cancel) requests with cache-extending queries are issued at random moments; every published merger (all of them: a publish handshake at the matcher.publish point) must equal the single-threaded filter+sort of the snapshot of some issued request with that query, read under four access patterns; every item of every snapshot is re-validated at the end; (2) cancellation enumeration: a cancelling request is injected exactly after the k-th chunk count (k=1..numChunks-1) for 1..40 chunks x 1..8 partitions: the superseded request publishes nothing, the superseding one publishes the complete result, nothing twice; (3) linearizability (porcupine) of Push/Snapshot/Clear histories and of EventBox Set/Peek/Wait histories from 2-6 goroutines; (4) race reports in fzf code are violations; (5) the whole program built with -race in a private tmux server: a slow producer feeds the real Reader while queries are typed, the sort order toggled, items excluded and the input reloaded (failpoints widening scans and publishes): race reports with a stack in the loader / matcher / cache / event-box / item code are violations, reports elsewhere in fzf (terminal, previewer) are outside this property and quoted in the evidence. distinct = (phase, partitions, chunks, cancel index | history shape) signatures"
	r.Assumptions = []string{"queries contain a positive term, so results are sorted and every chunk contributes matches", "a published merger is attributed to the most recent issued request with the same query and an equal reference result", "race detector: only executed pairs of accesses are seen"}
	logBase := filepath.Join(vk.Scratch(), "race")
	os.Setenv("GORACE", "halt_on_error=0 log_path="+logBase)
	r.Fanout("c13", vk.NumWorkers(), 40*time.Minute)
	if _, err := fzfrun.BinRace(); err != nil {
		r.Inconclusive("race build of fzf: " + err.Error())
	} else {
		r.Fanout("c13live", vk.NumWorkers(), 40*time.Minute)
		r.Floor("race_sessions", 8)
	}
	// race reports written by the workers
	logs, _ := filepath.Glob(logBase + ".*")
	reports := 0
	fzfReports := 0
	var firstReport string
	seen := map[string]int{}
	for _, l := range logs {
		data, err := os.ReadFile(l)
		if err != nil {
			continue
		}
		for _, blk := range strings.Split(string(data), "==================") {
			if !strings.Contains(blk, "WARNING: DATA RACE") {
				continue
			}
			reports++
			if strings.Contains(blk, "github.com/junegunn/fzf/src") {
				fzfReports++
				if firstReport == "" {
					firstReport = blk
				}
				key := raceKey(blk)
				seen[key+raceSummary(blk)]++
				if seen[key+raceSummary(blk)] <= 2 {
					r.Violate(vk.Violation{Key: key, Summary: "C13: data race reported in fzf code: " + raceSummary(blk), Witness: map[string]any{"report": blk}})
				}
			} else if firstReport == "" {
				firstReport = blk
			}
		}
	}
	r.Count("race_reports_total", int64(reports))
	r.Count("race_reports_in_fzf_code", int64(fzfReports))
	if reports > fzfReports {
		r.Inconclusive(fmt.Sprintf("%d race reports outside fzf code (harness): %s", reports-fzfReports, raceSummary(firstReport)))
	}
	r.Extra("race_detector", raceEnabledNote())
	r.Floor("publishes_checked", 200)
	r.Floor("cancellation_cases", 100)
	r.Floor("linearizable_histories", 20)
	return r.Finish()
}

// raceKey classifies a report against the listed findings: the two stacks of F24 are the
// --tail copy in ChunkList.Snapshot and the lazily cached trim length written by a matcher worker.
func raceKey(blk string) string {
	parts := strings.SplitN(blk, "Previous ", 2)
	if len(parts) != 2 {
		return ""
	}
	second := parts[1]
	if i := strings.Index(second, "Goroutine "); i > 0 {
		second = second[:i]
	}
	a, b := parts[0], second
	snap := func(s string) bool { return strings.Contains(s, "(*ChunkList).Snapshot") }
	trim := func(s string) bool { return strings.Contains(s, "(*Chars).TrimLength") }
	if snap(a) && trim(b) && !trim(a) || snap(b) && trim(a) && !trim(b) {
		return "F24-snapshot-tail-copy-vs-trimlength-cache"
	}
	// F33: the per-item cache of --nth tokens (Item.transformed) is filled without synchronisation by
	// whoever matches the item first - a matcher worker (scan) or the terminal (highlighting): one side
	// builds / publishes the tokens, the other side is inside the same pattern evaluation
	builds := func(s string) bool {
		return strings.Contains(s, "(*Pattern).transformInput") || strings.Contains(s, "fzf/src.Transform()")
	}
	evals := func(s string) bool {
		return strings.Contains(s, "(*Pattern).extendedMatch") || strings.Contains(s, "(*Pattern).transformInput")
	}
	other := func(s string) bool {
		return strings.Contains(s, "(*ChunkList)") || strings.Contains(s, "(*ChunkCache)") || strings.Contains(s, "(*Merger)") || strings.Contains(s, "(*Reader)")
	}
	if (builds(a) || builds(b)) && evals(a) && evals(b) && !other(a) && !other(b) {
		return "F33-nth-token-cache-unsynchronised"
	}
	// ... and the third party: Snapshot copies the last (or --tail-trimmed) chunk by value, item by item,
	// while a worker publishes the cache pointer in one of those items
	if snap(a) && builds(b) && !snap(b) || snap(b) && builds(a) && !snap(a) {
		return "F33-nth-token-cache-unsynchronised"
	}
	return ""
}

func raceSummary(blk string) string {
	var fn []string
	for _, l := range strings.Split(blk, "\n") {
		l = strings.TrimSpace(l)
		if strings.HasPrefix(l, "github.com/junegunn/fzf/src") || strings.HasPrefix(l, "verif/harness") {
			if i := strings.Index(l, "("); i > 0 {
				l = l[:i]
			}
			fn = append(fn, l)
			if len(fn) >= 4 {
				break
			}
		}
	}
	return strings.Join(fn, " <-> ")
}

type request struct {
	id     int
	query  string
	items  []*fzf.Item
	cancel bool
	final  bool
	ref    []int32
	refOK  bool
}

type session struct {
	w        *World
	r        *vk.Run
	rng      *rand.Rand
	mu       sync.Mutex
	reqs     []*request
	fins     chan finEvt
	stop     atomic.Bool
	pending  atomic.Bool // a published merger has not been collected yet
	nPublish atomic.Int64
	loopDone chan struct{}
	pubs     []published
}

// published is what was read from a merger while the system was running; it is
// compared with the references only after the matcher has stopped (the reference
// evaluation touches the items' lazily cached trim length, which belongs to the matcher while it runs).
type published struct {
	seq    []int32
	query  string
	final  bool
	access string
}

func (s *session) startLoop() {
	s.loopDone = make(chan struct{})
	go func() {
		s.w.M.Loop()
		close(s.loopDone)
	}()
}

func (s *session) stopLoop() {
	s.w.M.Stop()
	if s.loopDone != nil {
		select {
		case <-s.loopDone:
		case <-time.After(20 * time.Second):
		}
		s.loopDone = nil
	}
}

func newSession(r *vk.Run, rng *rand.Rand, partitions int, sortOn, tac bool) *session {
	s := &session{w: NewWorld(partitions, sortOn, tac), r: r, rng: rng, fins: make(chan finEvt, 1024)}
	go s.collector()
	return s
}

// finEvt: the merger and its final flag as read inside the event-box callback (where core.go reads it)
type finEvt struct {
	mg    *fzf.Merger
	final bool
}

func (s *session) collector() {
	for !s.stop.Load() {
		var mg *fzf.Merger
		final := false
		s.w.Box.Wait(func(ev *util.Events) {
			if v, ok := (*ev)[fzf.EvtSearchFin]; ok {
				mg, _ = v.(*fzf.Merger)
				if mg != nil {
					final = fzf.VerifMergerFinal(mg)
				}
			}
			ev.Clear()
		})
		if mg != nil {
			s.fins <- finEvt{mg, final}
			s.pending.Store(false)
		}
	}
}

func (s *session) close() {
	s.stop.Store(true)
	s.stopLoop()
	s.w.Box.Set(fzf.EvtReady, nil)
}

func (s *session) issue(query string, tail int, cancel, final bool) *request {
	chunks, _, _ := s.w.List.Snapshot(tail)
	s.mu.Lock()
	req := &request{id: len(s.reqs), query: query, items: Flatten(chunks), cancel: cancel, final: final}
	s.reqs = append(s.reqs, req)
	s.mu.Unlock()
	fzf.VerifMatcherReset(s.w.M, chunks, query, cancel, final, s.w.Sort, 0, 0)
	return req
}

// attribute finds the issued request a published merger answers.
func (s *session) attribute(got []int32, query string, final bool) *request {
	s.mu.Lock()
	reqs := append([]*request(nil), s.reqs...)
	s.mu.Unlock()
	n := len(reqs)
	for i := n - 1; i >= 0; i-- {
		q := reqs[i]
		if q.query != query {
			continue
		}
		if !q.refOK {
			q.ref = s.w.Reference(q.items, q.query)
			q.refOK = true
		}
		if eqIdx(got, q.ref) {
			return q
		}
		if n-i > 400 {
			break
		}
	}
	return nil
}

func workerC13(r *vk.Run, w, n int, args []string) {
	rng := rand.New(rand.NewSource(r.Seed*104729 + int64(w)*67 + 11))
	rounds := 12
	if !r.Quick() {
		rounds = 400
	}
	for i := 0; i < rounds; i++ {
		stress(r, rng, w, i)
	}
	cancellation(r, rng, w, n)
	linearizability(r, rng, w, n)
	fzf.VerifSetPointHandler(nil)
}

// ---- (1) stress

func stress(r *vk.Run, rng *rand.Rand, w, round int) {
	partitions := []int{1, 2, 8, 32}[rng.Intn(4)]
	tac := rng.Intn(4) == 0
	tail := 0
	if rng.Intn(3) == 0 {
		tail = 150 + rng.Intn(2000)
	}
	s := newSession(r, rng, partitions, true, tac)
	defer s.close()
	// publish handshake: the matcher waits at its publish point until the previous merger was collected,
	// so that every publish is observed (EventBox.Set would overwrite an uncollected one)
	fzf.VerifSetPointHandler(func(name string, k int) {
		switch name {
		case "matcher.publish":
			for s.pending.Load() && !s.stop.Load() {
				time.Sleep(50 * time.Microsecond)
			}
			s.pending.Store(true)
			s.nPublish.Add(1)
		case "scan.chunk":
			if k%7 == 3 {
				time.Sleep(20 * time.Microsecond) // spread workers
			}
		}
	})
	s.startLoop()
	total := 6000 + rng.Intn(9000)
	var pushed atomic.Int64
	done := make(chan struct{})
	lrng := rand.New(rand.NewSource(rng.Int63()))
	go func() { // loader
		rng := lrng
		for i := 0; i < total; i++ {
			s.w.List.Push([]byte(ItemText(i)))
			pushed.Add(1)
			if i%97 == 0 {
				time.Sleep(time.Duration(rng.Intn(300)) * time.Microsecond)
			}
		}
		close(done)
	}()
	// coordinator (starts once something is loaded: an empty snapshot yields an anonymous empty result)
	for pushed.Load() < 150 {
		time.Sleep(100 * time.Microsecond)
	}
	// as in fzf, reader-initiated (retry) requests carry the current query; only
	// user-initiated (cancelling) requests change it
	cur := Queries[rng.Intn(len(Queries))]
	loading := true
	issued := 0
	for loading {
		select {
		case <-done:
			loading = false
		default:
		}
		switch rng.Intn(12) {
		case 0, 1, 2, 3:
			cur = Queries[rng.Intn(len(Queries))]
			s.issue(cur, tail, true, false)
		case 4, 5, 6:
			// extend / shrink the query (prefix/suffix cache)
			if !strings.ContainsAny(cur, "!|'^$ ") {
				if rng.Intn(2) == 0 && len(cur) < 6 {
					cur += "b"
				} else if len(cur) > 1 {
					cur = cur[:len(cur)-1]
				}
			}
			s.issue(cur, tail, true, false)
		case 7:
			// refine a plain query by a term of another kind, or take the refinement away again: a result
			// cached for the plain part must not answer the refined query (and vice versa)
			if i := strings.Index(cur, " "); i > 0 && cur[0] != '!' {
				cur = cur[:i] // (never down to a negated-only query: those are not ranked, the reference ranks)
			} else if cur != "" && !strings.ContainsAny(cur, "!|^$") {
				cur += []string{" !1", " !ab", " 'ab", " ^0", " 2$"}[rng.Intn(5)]
			}
			s.issue(cur, tail, true, false)
		default:
			s.issue(cur, tail, false, false)
		}
		issued++
		if rng.Intn(4) != 0 {
			time.Sleep(time.Duration(rng.Intn(1500)) * time.Microsecond)
		}
	}
	// end of input: the reader's final retry, sometimes chased or preceded by a user edit
	switch rng.Intn(3) {
	case 0:
		cur = Queries[rng.Intn(len(Queries))]
		s.issue(cur, tail, true, false)
		issued++
	case 1:
		time.Sleep(time.Duration(rng.Intn(3000)) * time.Microsecond)
	}
	last := s.issue(cur, tail, false, true)
	issued++
	if rng.Intn(3) == 0 {
		// the user types right after the input ended: a cancelling request with the complete input
		cur = Queries[rng.Intn(len(Queries))]
		last = s.issue(cur, tail, true, true)
		issued++
	}
	// quiescence: wait until the final request has been answered (or the watchdog fires)
	deadline := time.Now().Add(60 * time.Second)
	var lastAttr *request
	checked := 0
	quiet := false
	for time.Now().Before(deadline) {
		select {
		case fe := <-s.fins:
			mg := fe.mg
			seq, access := ReadMerger(mg, s.rng.Intn(4), s.rng.Intn)
			s.pubs = append(s.pubs, published{seq, fzf.VerifMergerQuery(mg), fe.final, access})
			checked++
			// the final request is answered when a final merger for its query with the full count arrives
			if fe.final && fzf.VerifMergerQuery(mg) == last.query {
				quiet = true
			}
		case <-time.After(300 * time.Millisecond):
			if quiet {
				deadline = time.Now()
			}
		}
	}
	s.stopLoop()
	for _, p := range s.pubs {
		if req := s.checkPublished(p, partitions, tail); req != nil {
			lastAttr = req
		}
	}
	if quiet && (lastAttr == nil || lastAttr.id != last.id) {
		quiet = false
	}
	r.Eval(1)
	r.Count("requests_issued", int64(issued))
	r.Count("stress_rounds", 1)
	r.Distinct(fmt.Sprintf("stress p%d tac%v tail%v", partitions, tac, tail > 0))
	if !quiet {
		if lastAttr != nil && lastAttr.id != last.id {
			r.Violate(vk.Violation{Key: "F13-mailbox-map-order", Summary: fmt.Sprintf("C13/C08: after input ended the last published result answers request #%d (%q) although request #%d (%q, final) was issued last", lastAttr.id, lastAttr.query, last.id, last.query),
				Witness: map[string]any{"last_published_request": lastAttr.id, "last_issued_request": last.id, "partitions": partitions}})
		} else {
			r.Inconclusive("stress: the final request was not answered within the watchdog")
		}
	}
	// immutability: every item of every snapshot still has its index-derived content
	bad := 0
	for qi, q := range s.reqs {
		if qi%8 != 0 && qi != len(s.reqs)-1 {
			continue
		}
		for _, it := range q.items {
			idx := int(fzf.VerifItemIndex(it))
			if fzf.VerifItemText(it) != ItemText(idx) {
				bad++
				if bad == 1 {
					r.Violate(vk.Violation{Summary: fmt.Sprintf("C13: item %d of a snapshot changed after it was read: %q, expected %q", idx, fzf.VerifItemText(it), ItemText(idx)),
						Witness: map[string]any{"request": q.id, "index": idx}})
				}
			}
		}
		r.Count("snapshot_items_revalidated", int64(len(q.items)))
	}
	// snapshots are prefix-closed: consecutive indices, ending at the count at snapshot time
	for _, q := range s.reqs {
		for k := 1; k < len(q.items); k++ {
			if fzf.VerifItemIndex(q.items[k]) != fzf.VerifItemIndex(q.items[k-1])+1 {
				r.Violate(vk.Violation{Summary: fmt.Sprintf("C13: snapshot of request #%d is not a contiguous run of items (index %d follows %d)", q.id, fzf.VerifItemIndex(q.items[k]), fzf.VerifItemIndex(q.items[k-1])),
					Witness: map[string]any{"request": q.id, "tail": tail}})
				break
			}
		}
		if tail > 0 && len(q.items) > tail {
			r.Violate(vk.Violation{Summary: fmt.Sprintf("C13: snapshot with tail=%d holds %d items", tail, len(q.items)), Witness: map[string]any{"request": q.id}})
		}
	}
}

func (s *session) checkPublished(p published, partitions, tail int) *request {
	got, access, query := p.seq, p.access, p.query
	s.r.Count("publishes_checked", 1)
	for i, v := range got {
		if v < 0 {
			s.r.Violate(vk.Violation{Summary: fmt.Sprintf("C13: merger position %d is unstable or unreadable (access pattern %s)", i, access), Witness: map[string]any{"query": query, "length": len(got)}})
			return nil
		}
	}
	req := s.attribute(got, query, p.final)
	if req == nil {
		// describe the nearest request for the witness
		var near *request
		s.mu.Lock()
		for i := len(s.reqs) - 1; i >= 0; i-- {
			if s.reqs[i].query == query {
				near = s.reqs[i]
				break
			}
		}
		s.mu.Unlock()
		wit := map[string]any{"query": query, "published_length": len(got), "access_pattern": access, "partitions": partitions, "tail": tail}
		if near != nil {
			wit["nearest_request"] = near.id
			wit["nearest_expected_length"] = len(near.ref)
			wit["first_difference_at"] = firstDiffIdx(got, near.ref)
		}
		s.r.Violate(vk.Violation{Summary: fmt.Sprintf("C13: a published result for %q (%d matches, read %s) equals the sequential filter of no snapshot that was passed with that query", query, len(got), access), Witness: wit})
		return nil
	}
	s.r.Distinct(fmt.Sprintf("publish p%d %s %s n%d", partitions, access, query, bucket(len(req.items))))
	return req
}

func bucket(n int) int {
	switch {
	case n == 0:
		return 0
	case n < 100:
		return 99
	case n < 1000:
		return 999
	case n < 5000:
		return 4999
	}
	return 9999
}

// ---- (2) cancellation enumeration

func cancellation(r *vk.Run, rng *rand.Rand, w, n int) {
	type cfg struct{ chunks, parts int }
	var cfgs []cfg
	maxChunks := 12
	if !r.Quick() {
		maxChunks = 40
	}
	for c := 2; c <= maxChunks; c++ {
		for _, p := range []int{1, 2, 3, 8} {
			cfgs = append(cfgs, cfg{c, p})
		}
	}
	for ci, c := range cfgs {
		if ci%n != w {
			continue
		}
		for k := 1; k < c.chunks; k++ {
			cancelCase(r, rng, c.chunks, c.parts, k)
		}
	}
}

func cancelCase(r *vk.Run, rng *rand.Rand, numChunks, parts, k int) {
	s := newSession(r, rng, parts, true, false)
	defer s.close()
	for i := 0; i < numChunks*100-37; i++ { // last chunk partial
		s.w.List.Push([]byte(ItemText(i)))
	}
	var injected atomic.Bool
	var secondP atomic.Pointer[request]
	var cancelledSeen, publishes atomic.Int64
	fzf.VerifSetPointHandler(func(name string, c int) {
		switch name {
		case "scan.count":
			if c == k && injected.CompareAndSwap(false, true) {
				secondP.Store(s.issue("bc", 0, true, true))
			}
		case "matcher.cancelled":
			cancelledSeen.Add(1)
		case "matcher.publish":
			for s.pending.Load() && !s.stop.Load() {
				time.Sleep(50 * time.Microsecond)
			}
			s.pending.Store(true)
			publishes.Add(1)
		}
	})
	s.startLoop()
	first := s.issue("ab", 0, true, false)
	var got []*fzf.Merger
	deadline := time.After(30 * time.Second)
loop:
	for {
		select {
		case fe := <-s.fins:
			mg := fe.mg
			got = append(got, mg)
			if secondP.Load() != nil && fzf.VerifMergerQuery(mg) == "bc" {
				// allow a moment for a (wrong) extra publish
				select {
				case fe2 := <-s.fins:
					got = append(got, fe2.mg)
				case <-time.After(30 * time.Millisecond):
				}
				break loop
			}
		case <-deadline:
			break loop
		}
	}
	r.Eval(1)
	r.Count("cancellation_cases", 1)
	r.Distinct(fmt.Sprintf("cancel chunks%d parts%d k%d", numChunks, parts, k))
	wit := map[string]any{"chunks": numChunks, "partitions": parts, "cancel_after_count": k, "publishes": len(got), "cancelled_events": cancelledSeen.Load()}
	if !injected.Load() {
		r.Inconclusive(fmt.Sprintf("cancellation point scan.count=%d never reached (chunks %d)", k, numChunks))
		return
	}
	if len(got) == 0 {
		r.Inconclusive("no publish within the watchdog in a cancellation case")
		return
	}
	type pub struct {
		q   string
		seq []int32
	}
	var pubs []pub
	for _, mg := range got {
		seq, _ := ReadMerger(mg, 0, rng.Intn)
		pubs = append(pubs, pub{fzf.VerifMergerQuery(mg), seq})
	}
	s.stopLoop()
	second := secondP.Load()
	for _, p := range pubs {
		q, seq := p.q, p.seq
		switch q {
		case "ab":
			first.ref = s.w.Reference(first.items, "ab")
			wit["superseded_published_length"] = len(seq)
			wit["superseded_full_length"] = len(first.ref)
			if eqIdx(seq, first.ref) {
				r.Violate(vk.Violation{Summary: fmt.Sprintf("C13: the superseded search was published (complete) although it was cancelled after %d of %d chunks", k, numChunks), Witness: wit})
			} else {
				r.Violate(vk.Violation{Summary: fmt.Sprintf("C13: a superseded search published a partial result (%d of %d matches) after cancellation at chunk %d of %d (%d partitions)", len(seq), len(first.ref), k, numChunks, parts), Witness: wit})
			}
			return
		case "bc":
			ref := s.w.Reference(second.items, "bc")
			if !eqIdx(seq, ref) {
				wit["first_difference_at"] = firstDiffIdx(seq, ref)
				r.Violate(vk.Violation{Summary: fmt.Sprintf("C13: the superseding search published %d matches, the sequential filter gives %d (cancel at %d of %d chunks, %d partitions)", len(seq), len(ref), k, numChunks, parts), Witness: wit})
				return
			}
		}
	}
	if len(got) > 1 {
		r.Violate(vk.Violation{Summary: fmt.Sprintf("C13: %d results were published for one superseding request", len(got)), Witness: wit})
	}
	if cancelledSeen.Load() == 0 {
		r.Count("cancel_not_observed", 1)
	}
}

package fieldchk

import (
	"fmt"
	"math/rand"
	"regexp"
	"strings"
	"time"
	"unicode"

	fzf "github.com/junegunn/fzf/src"
	"github.com/junegunn/fzf/src/algo"

	"verif/harness/fzfrun"
	"verif/harness/vk"
)

func init() { vk.RegisterWorker("c10bin", workerBin) }

// refStrip: "the last delimiter is stripped from the output" (man page, --accept-nth), then trailing blanks.
func refStrip(s string, d delim) string {
	switch d.kind {
	case "str":
		lit := d.spec
		if lit == "\\t" {
			lit = "\t"
		}
		s = strings.TrimSuffix(s, lit)
	case "regex":
		if locs := d.re.FindAllStringIndex(s, -1); len(locs) > 0 && locs[len(locs)-1][1] == len(s) {
			s = s[:locs[len(locs)-1][0]]
		}
	}
	return strings.TrimRightFunc(s, unicode.IsSpace)
}

var sgrPieces = []string{"\x1b[31m", "\x1b[1;32m", "\x1b[m", "\x1b[0m", "\x1b[38;5;208m", "\x1b[48;2;1;2;3m", "\x1b[4m"}

// decorate inserts SGR sequences between the characters of a line (never inside a character).
func decorate(rng *rand.Rand, line string) string {
	var sb strings.Builder
	for _, r := range line {
		if rng.Intn(4) == 0 {
			sb.WriteString(sgrPieces[rng.Intn(len(sgrPieces))])
		}
		sb.WriteRune(r)
	}
	if rng.Intn(2) == 0 {
		sb.WriteString("\x1b[m")
	}
	return sb.String()
}

var lineBreaks = regexp.MustCompile("[\r\n]")

// workerBin: the whole program on one record with -1 (the one candidate is accepted without a terminal):
// what --accept-nth prints must be the documented fields of the ORIGINAL line, whatever --with-nth shows
// and whether or not --ansi removed colour codes from it.
func workerBin(r *vk.Run, w, n int, args []string) {
	algo.Init("default")
	bin, err := fzfrun.Bin()
	if err != nil {
		r.Inconclusive(err.Error())
		return
	}
	c := &chk{r: r, rng: rand.New(rand.NewSource(r.Seed*9341 + int64(w)*7 + 5))}
	total := 1600
	if !r.Quick() {
		total = 60000
	}
	per := total/n + 1
	exprs := allExprs()
	for i := 0; i < per; i++ {
		line := lineBreaks.ReplaceAllString(randLine(c.rng, 1+c.rng.Intn(12)), "x")
		d := delims[c.rng.Intn(len(delims))]
		vk.SetCase(map[string]any{"line": line, "delimiter": d.spec, "phase": "accept-nth binary"})
		del := fzf.VerifDelimiter(d.spec)
		if d.kind == "awk" {
			del = fzf.Delimiter{}
		}
		// the reference fields: the partition law was checked by the other phase; here the tokens of the plain line
		var toks []string
		for _, t := range fzf.Tokenize(line, del) {
			toks = append(toks, fzf.VerifTokenText(t))
		}
		if strings.Join(toks, "") != line {
			continue // decided (and reported) by the partition phase
		}
		e := exprs[c.rng.Intn(len(exprs))]
		lo, hi := refSelect(e, len(toks))
		var sb strings.Builder
		for k := lo; k <= hi; k++ {
			if k >= 1 && k <= len(toks) {
				sb.WriteString(toks[k-1])
			}
		}
		want := refStrip(sb.String(), d)
		argv := []string{"-1", "--accept-nth", e.s}
		if d.kind != "awk" {
			argv = append(argv, "--delimiter", d.spec)
		}
		shape := "plain"
		input := line
		if c.rng.Intn(2) == 0 {
			argv = append(argv, "--ansi")
			input = decorate(c.rng, line)
			shape = "ansi"
		}
		if c.rng.Intn(2) == 0 {
			argv = append(argv, "--with-nth", exprs[c.rng.Intn(len(exprs))].s)
			shape += "+with-nth"
		}
		res := fzfrun.Proc(bin, argv, []byte(input+"\n"), 20*time.Second)
		if res.TimedOut {
			r.Inconclusive("accept-nth run timed out")
			continue
		}
		r.Count("accept_nth_runs", 1)
		r.Eval(1)
		r.Distinct(fmt.Sprintf("accept-nth %s %s n%d %s", shape, d.kind, len(toks), e.s))
		if res.Code != 0 || string(res.Stdout) != want+"\n" {
			c.violate(fmt.Sprintf("--accept-nth %s printed %q (exit %d), the documented fields of the original line are %q", e.s, res.Stdout, res.Code, want+"\n"),
				map[string]any{"argv": argv, "input": input, "line": line, "delimiter": d.spec, "fields": toks, "stderr": string(res.Stderr)})
			return
		}
	}
}

package livechk

import (
	"fmt"
	"math/rand"
	"os"
	"path/filepath"
	"strings"
	"syscall"
	"time"

	"verif/harness/fzfrun"
	"verif/harness/tty"
	"verif/harness/vk"
)

func init() { vk.RegisterWorker("c20", workerC20) }

func MainC20(prop, tier string) int {
	r := vk.New("C20", tier)
	r.Rule = "interactive sessions with a preview command that logs every invocation (nonce, pid, {n}, {q}, {}, {+}) and then exits at once / finishes after 0.25 s / never ends / prints incrementally depending on the item: histories of cursor moves, query edits, toggles, refresh-preview, change-preview, toggle-preview and resizes, posted one at a time or as concurrent bursts, with failpoints delaying preview start. At quiescence (all batches consumed, search settled, then the hook trace quiet) the last started preview must be the one for the line under the cursor with the current query and selection, its nonce must be on the screen in the preview pane, at most one preview process group may be alive at every sample, none after the session ends, and no temp file may remain. distinct = (action kinds, behaviour class of the final item, burst/paced, failpoint table) signatures"
	r.Assumptions = []string{"'catches up' is decided in logical time: the state is wrong AND the hook trace has been quiet for 3 s (a hang is a violation, a slow run is not)", "when the preview window is hidden or the list is empty no preview is expected"}
	if _, err := fzfrun.Bin(); err != nil {
		r.Inconclusive(err.Error())
		r.Floor("quiescent_preview_checks", 1)
		return r.Finish()
	}
	r.Fanout("c20", vk.NumWorkers(), 90*time.Minute)
	r.Floor("quiescent_preview_checks", 60)
	r.Floor("preview_starts_logged", 100)
	return r.Finish()
}

type startRec struct {
	nonce, pid, tag, n, q, cur, sel string
}

func readPreviewLog(path string) []startRec {
	data, _ := os.ReadFile(path)
	var out []startRec
	for _, l := range strings.Split(string(data), "\n") {
		f := strings.Split(l, "\t")
		if len(f) == 8 && f[0] == "start" {
			out = append(out, startRec{f[1], f[2], f[3], f[4], f[5], f[6], f[7]})
		}
	}
	return out
}

// previewGroups: process groups of the session that belong to preview commands.
func previewGroups(s *tty.Session) map[int][]tty.Proc {
	groups := map[int][]tty.Proc{}
	for _, p := range s.SessionProcs() {
		if strings.Contains(p.Cmd, "<zombie>") || strings.HasPrefix(p.Comm, "fzf") {
			continue
		}
		if strings.Contains(p.Cmd, "preview.sh") || strings.Contains(p.Cmd, "sleep 1000.5") {
			groups[p.Pgid] = append(groups[p.Pgid], p)
		}
	}
	return groups
}

func workerC20(r *vk.Run, w, n int, args []string) {
	rng := rand.New(rand.NewSource(r.Seed*9001 + int64(w)*151 + 4))
	sessions := 240
	if !r.Quick() {
		sessions = 5000
	}
	per := sessions/n + 1
	for i := 0; i < per; i++ {
		sessionC20(r, rng, w, i)
	}
}

func sessionC20(r *vk.Run, rng *rand.Rand, wkr, idx int) {
	script := filepath.Join(vk.VerifDir(), "scripts", "preview.sh")
	nitems := 24
	var lines []string
	for i := 0; i < nitems; i++ {
		lines = append(lines, fmt.Sprintf("it%02d %s", i, []string{"ab", "ba", "a1", "b2"}[i%4]))
	}
	altPath := filepath.Join(vk.Scratch(), fmt.Sprintf("c20-alt-%d-%d-%d", os.Getpid(), wkr, idx))
	var alt []string
	for i := 0; i < nitems; i++ {
		alt = append(alt, fmt.Sprintf("re%02d %s", i, []string{"ab", "ba", "a1", "b2"}[i%4]))
	}
	os.WriteFile(altPath, []byte(joinLines(alt)), 0o644)
	defer os.Remove(altPath)
	origPath := altPath + ".orig"
	os.WriteFile(origPath, []byte(joinLines(lines)), 0o644)
	defer os.Remove(origPath)
	multi := rng.Intn(2) == 0
	// (with the exec form no shell keeps the output pipe open on behalf of the command: a command that
	// closes its own stdout and stderr reaches EOF while it is still running)
	execForm := rng.Intn(2) == 0
	tmpl := func(tag string) string {
		t := "sh " + shq(script) + " " + tag + " {n} {q} {}"
		if execForm {
			t = "exec " + t
		}
		if multi {
			t += " {+}"
		}
		return t
	}
	fzfArgs := []string{"--preview", tmpl("A"), "--no-mouse"}
	if multi {
		fzfArgs = append(fzfArgs, "--multi")
	}
	if rng.Intn(3) == 0 {
		fzfArgs = append(fzfArgs, "--preview-window", []string{"up,40%", "down,5", "left,30%", "right,60%,wrap"}[rng.Intn(4)])
	}
	points := []string{"", "", "preview.before_start=sleep(30)", "preview.started=sleep(20)", "term.loop_end=sleep(5)", "preview.before_start=50.0%:sleep(60)"}[rng.Intn(6)]
	scr := vk.Scratch()
	logPath := filepath.Join(scr, fmt.Sprintf("c20-log-%d-%d-%d", os.Getpid(), wkr, idx))
	os.Remove(logPath)
	defer os.Remove(logPath)
	s, err := tty.Start(tty.StartOpts{Args: fzfArgs, Input: []byte(joinLines(lines)), Cols: 100, Rows: 24, Points: points, Seed: r.Seed, Env: []string{"VERIF_PREVIEW_LOG=" + logPath}})
	if err != nil {
		r.Inconclusive("start: " + err.Error())
		if s != nil {
			s.Close()
		}
		return
	}
	defer s.Close()
	// the oracle of this check is the preview log: a search result that is published but never handed to
	// the terminal must not keep the session from being judged
	s.LooseSearch = true
	if _, ok := s.WaitQuiescent(30 * time.Second); !ok {
		r.Inconclusive("no initial quiescence: " + s.LastWait)
		return
	}
	var hist []string
	kinds := map[string]bool{}
	tag := "A"
	hidden := false
	burstMode := "paced"
	nrounds := 4 + rng.Intn(8)
	violated := false
	fail := func(key, what string, extra map[string]any) {
		w := map[string]any{"fzf_args": fzfArgs, "failpoints": points, "history": hist, "preview_log_tail": tailRecs(readPreviewLog(logPath), 6), "trace_tail": traceLines(s, 70)}
		for k, v := range extra {
			w[k] = v
		}
		r.Violate(vk.Violation{Key: key, Summary: "C20: " + what + fmt.Sprintf(" (history %v, failpoints %q)", tailS(hist, 6), points), Witness: w})
		violated = true
	}
	sampleAlive := func(when string) bool {
		g := previewGroups(s)
		r.Count("alive_samples", 1)
		if len(g) > 1 {
			// a killed group stays in the process table until the kernel has torn it down: only groups
			// that are still there a moment later were alive side by side
			time.Sleep(40 * time.Millisecond)
			g2 := previewGroups(s)
			for pg := range g {
				if _, still := g2[pg]; !still {
					delete(g, pg)
				}
			}
		}
		if len(g) > 1 {
			fail("", fmt.Sprintf("%d preview commands alive at once (%s)", len(g), when), map[string]any{"process_groups": g})
			return false
		}
		return true
	}
	for round := 0; round < nrounds && !violated; round++ {
		burst := 1
		concurrent := rng.Intn(3) == 0
		if concurrent {
			burst = 3 + rng.Intn(4)
			burstMode = "burst"
		}
		var posts []string
		if !concurrent && !hidden && rng.Intn(8) == 0 {
			// scripted: the window is hidden through its options, the query or the selection changes while
			// the cursor stays where it is, the window is shown again: the command has to run for the new state
			edit := []string{"put(a)", "put(1)", "backward-delete-char", "put( )"}[rng.Intn(4)]
			if multi && rng.Intn(2) == 0 {
				edit = "toggle"
			}
			posts = []string{"change-preview-window(hidden)", edit, "change-preview-window(" + []string{"nohidden", "nohidden,up,50%", "nohidden,right,40%"}[rng.Intn(3)] + ")"}
			kinds["hide-edit-show"] = true
			burst = 0
		}
		for b := 0; b < burst; b++ {
			var a string
			switch c := rng.Intn(15); {
			case c < 5:
				a = []string{"up", "down", "up", "down", "first", "last", "page-up"}[rng.Intn(7)]
				kinds["move"] = true
			case c < 7:
				a = "put(" + []string{"a", "b", "1", "i", " ", " "}[rng.Intn(6)] + ")"
				kinds["query"] = true
			case c < 8:
				a = "backward-delete-char"
				kinds["query"] = true
			case c < 10:
				if !multi {
					a = "down"
				} else {
					a = "toggle"
					kinds["toggle"] = true
				}
			case c < 11 || concurrent && c < 13:
				// (the order of concurrent posts is unknown to the harness, so actions whose effect
				// depends on it - toggle-preview, change-preview - are only posted one at a time)
				a = "refresh-preview"
				kinds["refresh"] = true
			case c < 12:
				tag = []string{"B", "C", "A"}[rng.Intn(3)]
				a = "change-preview(" + tmpl(tag) + ")"
				kinds["change-preview"] = true
			case c < 13 && rng.Intn(2) == 0:
				// hide / show through the window options (absolute, unlike toggle-preview)
				if rng.Intn(2) == 0 {
					a = "change-preview-window(hidden)"
					hidden = true
				} else {
					a = "change-preview-window(" + []string{"nohidden", "nohidden,up,50%", "nohidden,right,40%"}[rng.Intn(3)] + ")"
					hidden = false
				}
				kinds["change-preview-window"] = true
			case c < 13:
				a = "toggle-preview"
				hidden = !hidden
				kinds["toggle-preview"] = true
			case c < 14 && !concurrent && rng.Intn(2) == 0:
				// another list of the same length: the line under the cursor changes although its position does not
				a = "reload(cat " + shq([]string{altPath, origPath}[rng.Intn(2)]) + ")"
				kinds["reload"] = true
			default:
				a = "pos(" + fmt.Sprint(1+rng.Intn(nitems)) + ")"
				kinds["move"] = true
			}
			posts = append(posts, a)
		}
		if concurrent {
			done := make(chan bool, len(posts))
			for _, p := range posts {
				go func(p string) {
					code, err := s.PostNoCount(p)
					done <- err == nil && code == 200
				}(p)
			}
			ok := 0
			for range posts {
				if <-done {
					ok++
				}
			}
			s.Posted += ok
			hist = append(hist, "concurrently{"+strings.Join(posts, " ; ")+"}")
		} else {
			for _, p := range posts {
				if code, err := s.Post(p); err != nil || code != 200 {
					r.Inconclusive(fmt.Sprintf("POST %q: %v %d", p, err, code))
					return
				}
				hist = append(hist, p)
			}
		}
		if rng.Intn(3) == 0 {
			c, rows := 60+rng.Intn(80), 12+rng.Intn(20)
			s.Resize(c, rows)
			hist = append(hist, fmt.Sprintf("resize %dx%d", c, rows))
			kinds["resize"] = true
		}
		if !sampleAlive("mid-history") {
			return
		}
		st, ok := s.WaitQuiescent(45 * time.Second)
		if !ok {
			if _, exited := s.ExitCode(); exited {
				fail("", "fzf exited: "+s.Stderr(), nil)
			} else {
				r.Inconclusive("no quiescence: " + s.LastWait)
			}
			return
		}
		// expected preview
		if st.Current == nil || st.MatchCount == 0 {
			continue
		}
		expN := fmt.Sprint(st.Current.Index)
		expSel := ""
		if multi {
			if len(st.Selected) == 0 {
				expSel = "|" + st.Current.Text
			}
			for _, it := range st.Selected {
				expSel += "|" + it.Text
			}
		}
		matches := func(rec startRec) bool {
			return rec.n == expN && rec.q == st.Query && rec.cur == st.Current.Text && rec.sel == expSel && (tag == "" || rec.tag == tag)
		}
		// wait (in logical time) for the preview to catch up: the condition holds, or the trace goes quiet
		deadline := time.Now().Add(40 * time.Second)
		lastLen, quietSince := -1, time.Now()
		caught := false
		var recs []startRec
		for time.Now().Before(deadline) {
			recs = readPreviewLog(logPath)
			if hiddenNow(hidden) {
				caught = true
				break
			}
			if len(recs) > 0 && matches(recs[len(recs)-1]) {
				caught = true
				break
			}
			tr := s.Trace()
			if len(tr) != lastLen {
				lastLen, quietSince = len(tr), time.Now()
			} else if time.Since(quietSince) > 3*time.Second {
				break // nothing is happening any more
			}
			if !sampleAlive("while waiting for the preview") {
				return
			}
			time.Sleep(20 * time.Millisecond)
		}
		r.Eval(1)
		r.Count("quiescent_preview_checks", 1)
		r.Count("preview_starts_logged", int64(len(recs)))
		if !caught {
			if time.Since(quietSince) <= 3*time.Second {
				r.Inconclusive("preview did not catch up within the watchdog while the trace was still active")
				return
			}
			lastRec := map[string]any{}
			if len(recs) > 0 {
				l := recs[len(recs)-1]
				lastRec = map[string]any{"n": l.n, "q": l.q, "current": l.cur, "selected": l.sel, "tag": l.tag}
			}
			key := ""
			if g := previewGroups(s); len(g) == 1 {
				key = "F16-preview-cancel-dropped"
			}
			fail(key, fmt.Sprintf("the session is quiet but the last preview started is for {n}=%v q=%q, the cursor is on {n}=%s q=%q", lastRec["n"], lastRec["q"], expN, st.Query),
				map[string]any{"last_started": lastRec, "expected": map[string]any{"n": expN, "q": st.Query, "current": st.Current.Text, "selected": expSel, "tag": tag}, "alive_groups": previewGroups(s)})
			return
		}
		if hiddenNow(hidden) {
			continue
		}
		// its output is what the preview window shows: the nonce of the last invocation is on screen
		nonce := recs[len(recs)-1].nonce
		onScreen := false
		for poll := 0; poll < 60 && !onScreen; poll++ {
			scrn, err := s.Capture()
			if err == nil && strings.Contains(strings.Join(scrn, "\n"), "@"+nonce) {
				onScreen = true
				break
			}
			// a newer invocation may have started meanwhile (e.g. a refresh): follow it
			if r2 := readPreviewLog(logPath); len(r2) > 0 && r2[len(r2)-1].nonce != nonce && matches(r2[len(r2)-1]) {
				nonce = r2[len(r2)-1].nonce
			}
			time.Sleep(50 * time.Millisecond)
		}
		if !onScreen {
			scrn, _ := s.Capture()
			fail("", fmt.Sprintf("the preview pane does not show the output of the last invocation (nonce %s)", nonce), map[string]any{"screen": scrn})
			return
		}
		// the complete output of a finishing invocation must end up in the pane (class 1: DONE, class 3: chunk 5)
		if cls := st.Current.Index % 4; cls == 1 || cls == 3 {
			want := map[int]string{1: "DONE", 3: "chunk 5"}[cls]
			shown := false
			scrn, _ := s.Capture()
			if !previewPaneTallEnough(scrn) {
				shown = true // the window is too short to hold the whole output: nothing to judge
			}
			for poll := 0; poll < 80 && !shown; poll++ {
				scrn, _ = s.Capture()
				if strings.Contains(strings.Join(scrn, "\n"), want) {
					shown = true
					break
				}
				if r2 := readPreviewLog(logPath); len(r2) > 0 && !matches(r2[len(r2)-1]) {
					shown = true // superseded meanwhile (resize / refresh): not this round's business
				}
				time.Sleep(50 * time.Millisecond)
			}
			r.Count("complete_output_checks", 1)
			if !shown && previewPaneTallEnough(scrn) {
				fail("", fmt.Sprintf("the preview finished but its last output line %q never appeared in the pane", want), map[string]any{"screen": scrn})
				return
			}
		}
		if !sampleAlive("at quiescence") {
			return
		}
	}
	if violated {
		return
	}
	// end of session: no preview survives, no temp file remains
	ending := []string{"abort", "accept", "esc", "sigterm", "sigint"}[rng.Intn(5)]
	switch ending {
	case "abort":
		s.Post("abort")
	case "sigterm":
		s.Signal(syscall.SIGTERM)
	case "sigint":
		s.Signal(syscall.SIGINT)
	case "accept":
		s.SendKeys("Enter")
	default:
		s.SendKeys("Escape")
	}
	hist = append(hist, ending)
	if _, exited := s.WaitExit(20 * time.Second); !exited {
		r.Inconclusive("session did not end")
		return
	}
	// the watcher goroutine kills the group asynchronously: give it a bounded number of polls
	var left map[int][]tty.Proc
	for poll := 0; poll < 40; poll++ {
		left = previewGroups(s)
		if len(left) == 0 {
			break
		}
		time.Sleep(50 * time.Millisecond)
	}
	r.Count("exits_checked", 1)
	if len(left) > 0 {
		fail("F11-preview-survives-exit", fmt.Sprintf("%d preview command(s) still alive 2 s after fzf ended by %s", len(left), ending), map[string]any{"process_groups": left})
		return
	}
	if tmp := s.TmpFiles(); len(tmp) > 0 {
		fail("", fmt.Sprintf("temp files left after exit: %v", tmp), nil)
		return
	}
	beh := "?"
	r.Distinct(fmt.Sprintf("%v %s fp[%s] multi%v end=%s %s", keysOf(kinds), burstMode, points, multi, ending, beh))
	if idx == 0 {
		r.Sample(map[string]any{"fzf_args": fzfArgs, "history": hist, "preview_invocations": len(readPreviewLog(logPath)), "failpoints": points})
	}
}

func hiddenNow(h bool) bool { return h }

func tailRecs(r []startRec, n int) []map[string]string {
	if len(r) > n {
		r = r[len(r)-n:]
	}
	var out []map[string]string
	for _, x := range r {
		out = append(out, map[string]string{"nonce": x.nonce, "pid": x.pid, "tag": x.tag, "n": x.n, "q": x.q, "current": x.cur, "selected": x.sel})
	}
	return out
}

func tailS(a []string, n int) []string {
	if len(a) > n {
		return a[len(a)-n:]
	}
	return a
}

// previewPaneTallEnough: at least 7 rows of the preview window lie below (and including) the marker
// line, i.e. nonce, arguments and five chunks fit without scrolling. Rows are counted down to the
// bottom border of the window.
func previewPaneTallEnough(scrn []string) bool {
	for i, l := range scrn {
		if !strings.Contains(l, "@") {
			continue
		}
		rows := 0
		for j := i; j < len(scrn); j++ {
			if strings.ContainsAny(scrn[j], "╰└╯┘") && j > i {
				break
			}
			rows++
		}
		return rows >= 7
	}
	return false
}

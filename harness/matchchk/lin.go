package matchchk

import (
	"fmt"
	"math/rand"
	"sync"
	"sync/atomic"
	"time"

	"github.com/anishathalye/porcupine"

	fzf "github.com/junegunn/fzf/src"
	"github.com/junegunn/fzf/src/util"

	"verif/harness/vk"
)

// ---- (3) linearizability of recorded histories

type clOp struct {
	Kind string // push | snap | clear
	Val  int    // pushed value id
	Tail int
}

type clOut struct {
	Ok    bool
	Items string // snapshot content as a string of value ids
}

// sequential model of the chunk list: an ordered list of value ids with tail trimming
var chunkListModel = porcupine.Model{
	Init: func() interface{} { return "" },
	Step: func(state, input, output interface{}) (bool, interface{}) {
		st := state.(string)
		in := input.(clOp)
		out := output.(clOut)
		switch in.Kind {
		case "push":
			return out.Ok, st + fmt.Sprintf("%d,", in.Val)
		case "clear":
			return true, ""
		default:
			if in.Tail > 0 {
				st = lastN(st, in.Tail)
			}
			return out.Items == st, st
		}
	},
	Equal: func(a, b interface{}) bool { return a.(string) == b.(string) },
	DescribeOperation: func(input, output interface{}) string {
		in := input.(clOp)
		out := output.(clOut)
		if in.Kind == "snap" {
			return fmt.Sprintf("snapshot(tail=%d) -> [%s]", in.Tail, clipStr(out.Items))
		}
		return fmt.Sprintf("%s(%d)", in.Kind, in.Val)
	},
}

func clipStr(s string) string {
	if len(s) > 60 {
		return s[:25] + "..." + s[len(s)-25:]
	}
	return s
}

func lastN(st string, n int) string {
	// st is "a,b,c," ; keep the last n entries
	cnt := 0
	for i := len(st) - 1; i >= 0; i-- {
		if st[i] == ',' {
			cnt++
			if cnt == n+1 {
				return st[i+1:]
			}
		}
	}
	return st
}

func chunkListHistory(rng *rand.Rand) ([]porcupine.Operation, string) {
	cache := fzf.NewChunkCache()
	cl := fzf.NewChunkList(cache, fzf.VerifItemBuilder())
	clients := 2 + rng.Intn(3)
	opsPer := 10 + rng.Intn(20)
	tail := 0
	if rng.Intn(2) == 0 {
		tail = 5 + rng.Intn(150)
	}
	withClear := rng.Intn(4) == 0
	var mu sync.Mutex
	var ops []porcupine.Operation
	var clock atomic.Int64
	var wg sync.WaitGroup
	for c := 0; c < clients; c++ {
		wg.Add(1)
		seed := rng.Int63()
		go func(c int) {
			defer wg.Done()
			lr := rand.New(rand.NewSource(seed))
			for i := 0; i < opsPer; i++ {
				var in clOp
				switch k := lr.Intn(10); {
				case k < 6:
					in = clOp{Kind: "push", Val: c*10000 + i}
				case k < 9 || !withClear:
					in = clOp{Kind: "snap", Tail: tail}
				default:
					in = clOp{Kind: "clear"}
				}
				call := clock.Add(1)
				var out clOut
				switch in.Kind {
				case "push":
					out.Ok = cl.Push([]byte(fmt.Sprint(in.Val)))
				case "clear":
					cl.Clear()
				case "snap":
					chunks, _, _ := cl.Snapshot(in.Tail)
					s := ""
					for _, it := range Flatten(chunks) {
						s += fzf.VerifItemText(it) + ","
					}
					out.Items = s
				}
				ret := clock.Add(1)
				mu.Lock()
				ops = append(ops, porcupine.Operation{ClientId: c, Input: in, Call: call, Output: out, Return: ret})
				mu.Unlock()
				if lr.Intn(4) == 0 {
					time.Sleep(time.Duration(lr.Intn(50)) * time.Microsecond)
				}
			}
		}(c)
	}
	wg.Wait()
	return ops, fmt.Sprintf("chunklist c%d tail%v clear%v", clients, tail > 0, withClear)
}

// ---- event box

type ebOp struct {
	Kind  string // set | peek | take
	Event int
	Val   int
}

type ebOut struct {
	Present bool
	Taken   string // events taken by Wait, "e=v;" sorted by event
}

var eventBoxModel = porcupine.Model{
	Init: func() interface{} { return [3]int{-1, -1, -1} },
	Step: func(state, input, output interface{}) (bool, interface{}) {
		st := state.([3]int)
		in := input.(ebOp)
		out := output.(ebOut)
		switch in.Kind {
		case "set":
			st[in.Event] = in.Val
			return true, st
		case "peek":
			return out.Present == (st[in.Event] >= 0), st
		default: // take: Wait returned with the current non-empty content and cleared it
			s := ""
			for e, v := range st {
				if v >= 0 {
					s += fmt.Sprintf("%d=%d;", e, v)
				}
			}
			if s == "" || s != out.Taken {
				return false, st
			}
			return true, [3]int{-1, -1, -1}
		}
	},
	Equal: func(a, b interface{}) bool { return a.([3]int) == b.([3]int) },
}

func eventBoxHistory(rng *rand.Rand) ([]porcupine.Operation, string) {
	box := util.NewEventBox()
	setters := 1 + rng.Intn(4)
	opsPer := 15 + rng.Intn(25)
	var mu sync.Mutex
	var ops []porcupine.Operation
	var clock atomic.Int64
	var wg sync.WaitGroup
	var stop atomic.Bool
	record := func(c int, in ebOp, call int64, out ebOut) {
		ret := clock.Add(1)
		mu.Lock()
		ops = append(ops, porcupine.Operation{ClientId: c, Input: in, Call: call, Output: out, Return: ret})
		mu.Unlock()
	}
	for c := 0; c < setters; c++ {
		wg.Add(1)
		seed := rng.Int63()
		go func(c int) {
			defer wg.Done()
			lr := rand.New(rand.NewSource(seed))
			for i := 0; i < opsPer; i++ {
				e := lr.Intn(3)
				if lr.Intn(3) == 0 {
					call := clock.Add(1)
					p := box.Peek(util.EventType(e))
					record(c, ebOp{Kind: "peek", Event: e}, call, ebOut{Present: p})
				} else {
					v := c*1000 + i
					call := clock.Add(1)
					box.Set(util.EventType(e), v)
					record(c, ebOp{Kind: "set", Event: e, Val: v}, call, ebOut{})
				}
				if lr.Intn(3) == 0 {
					time.Sleep(time.Duration(lr.Intn(40)) * time.Microsecond)
				}
			}
		}(c)
	}
	// one taker, as in fzf (each box has a single waiting goroutine)
	takerDone := make(chan struct{})
	go func() {
		defer close(takerDone)
		for !stop.Load() {
			call := clock.Add(1)
			taken := ""
			box.Wait(func(ev *util.Events) {
				for e := 0; e < 3; e++ {
					if v, ok := (*ev)[util.EventType(e)]; ok {
						taken += fmt.Sprintf("%d=%d;", e, v.(int))
					}
				}
				ev.Clear()
			})
			if stop.Load() && taken == "9=0;" {
				return
			}
			if taken != "" {
				record(99, ebOp{Kind: "take"}, call, ebOut{Taken: taken})
			}
		}
	}()
	wg.Wait()
	time.Sleep(2 * time.Millisecond)
	stop.Store(true)
	box.Set(util.EventType(9), 0) // wake the taker; event 9 is outside the model and not recorded
	<-takerDone
	return ops, fmt.Sprintf("eventbox s%d", setters)
}

func linearizability(r *vk.Run, rng *rand.Rand, w, n int) {
	hist := 24
	if !r.Quick() {
		hist = 1200
	}
	for i := 0; i < hist; i++ {
		var ops []porcupine.Operation
		var sig string
		model := chunkListModel
		if i%3 == 2 {
			ops, sig = eventBoxHistory(rng)
			model = eventBoxModel
		} else {
			ops, sig = chunkListHistory(rng)
		}
		res, info := porcupine.CheckOperationsVerbose(model, ops, 60*time.Second)
		r.Eval(1)
		r.Distinct("lin " + sig)
		switch res {
		case porcupine.Ok:
			r.Count("linearizable_histories", 1)
			r.Count("linearizability_operations", int64(len(ops)))
		case porcupine.Unknown:
			r.Inconclusive("linearizability checker timed out on a history of " + fmt.Sprint(len(ops)) + " operations (" + sig + ")")
		case porcupine.Illegal:
			var descr []string
			for k, op := range ops {
				if k >= 60 {
					break
				}
				descr = append(descr, fmt.Sprintf("c%d [%d,%d] %+v -> %+v", op.ClientId, op.Call, op.Return, op.Input, op.Output))
			}
			_ = info
			r.Violate(vk.Violation{Summary: fmt.Sprintf("C13: history of %d operations on the %s is not linearizable", len(ops), sig), Witness: map[string]any{"history_head": descr, "operations": len(ops)}})
		}
	}
}

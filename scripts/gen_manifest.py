#!/usr/bin/env python3
"""Regenerates /verif/MANIFEST.json from the table below (kept in one place so the
manifest stays valid while checks are added)."""
import json, os, subprocess

V = os.path.dirname(os.path.dirname(os.path.abspath(__file__)))

CHECKS = {
    "C14": dict(engine="E-tty",
                technique="runtime monitors over hostile interactive sessions: crash/exit-status monitor, DEC private mode ledger over the recorded raw tty byte stream, termios before/after, temp-file and process ledgers, trace-based progress (hang) detection",
                text="Sessions with random option vectors, hostile items, window sizes from 1x1 to 200x60 with resizes, POSTed actions, raw key bytes, SGR mouse events; ended by Enter/Escape/ctrl-c/abort/SIGTERM/SIGINT/become at arbitrary moments relative to running preview/execute/reload commands. After exit: no crash text, documented exit status, terminal modes restored (ledger), termios unchanged, $TMPDIR empty, no process of the pane's session left.",
                note="SIGHUP is outside the property's exit paths; after become only crash/termios/modes are checked. A hang is decided by trace silence plus unconsumed batches, with a goroutine dump as witness.",
                ref="4/C14"),
    "C15": dict(engine="E-tty",
                technique="runtime monitor: screen parser over tmux capture-pane, synchronised with the terminal emulator by order (a paint-free title mark appended to the pane's pty) and paired with GET / when the state and the hook trace did not change in between, compared with the reported state",
                text="After quiescence nothing is posted (a repainting sync action would heal stale rows); the screen is read after the emulator acknowledged a title mark; prompt row, info counts, header rows, list rows (contiguous window of matches[] in the layout's direction, truncation with the ellipsis, width bound), pointer and markers are compared with the state, over three layouts x four info styles x header settings (incl. their order) x border x multi, lines with lengths around the fitting point, with resizes.",
                note="ASCII items, fullscreen geometry; tmux is the terminal emulator.",
                ref="4/C15"),
    "C20": dict(engine="E-tty",
                technique="runtime monitor: invocation log written by the preview command itself + process-group ledger of the pane's session + screen check, at trace-defined quiescence and in logical time (trace silence) for the catch-up clause",
                text="A logging preview command with four behaviour classes (instant, slow, never-ending, incremental) under histories of moves, query edits, toggles, refresh/change/toggle-preview, reloads and resizes, paced or in concurrent bursts, with failpoints delaying preview start: the last started invocation must be the one for the state, its nonce (and complete output) on screen, at most one preview process group alive at every sample, none after exit, no temp file left.",
                note="'Catches up' is decided when the state is wrong and the hook trace has been quiet for 3 s.",
                ref="4/C20"),
    "C07": dict(engine="E-proc/E-tty",
                technique="runtime monitor: output-framing model over recorded stdout bytes and exit status (filter mode at process level; interactive endings in a private tmux server)",
                text="Filter-mode stdout/exit status under --with-nth/--ansi/--read0/--print0/--print-query and interactive endings (Enter, expect keys, Escape, print-query, accept-or-print-query, accept-non-empty, --select-1/--exit-0) with selection histories are compared byte for byte with the documented framing.",
                note="Valid UTF-8 input; the set of matching records comes from the reference evaluator applied to the displayed text.",
                ref="4/C07"),
    "C08": dict(engine="E-tty",
                technique="runtime monitor: metamorphic/reference comparison of the live state at trace-defined quiescence (GET /) with a fresh `fzf --filter`, under queued batches and injected delays (failpoints)",
                text="Interactive sessions driven through --listen with histories of query edits, sort toggles, exclusions, nth changes and reloads, paced or queued behind a busy UI loop, with failpoint delays; at quiescence (hook trace: request sequence numbers, reader start/fin) GET / must equal a fresh filter of the loaded input. The in-process twin (last published result answers the last request) runs in the C13 harness.",
                note="Quiescence comes from the hook trace, never from sleeps; watchdog expiry is inconclusive. Query text is modelled for end-of-line editing only (C09 covers the editor).",
                ref="4/C08"),
    "C09": dict(engine="E-tty",
                technique="runtime monitor: reference model (readline buffer with kill ring, list cursor, ordered selection map) compared with GET / after every consumed batch; stdout on accept",
                text="Histories of editing, navigation and selection actions over lists of 0/1/3/200 items, window heights 3-40, three layouts, multi limits, --cycle, --track, --no-input, two info styles; query, cursor position, current item and ordered selection are compared after every action, and the output of accept / accept-non-empty / accept-or-print-query at the end.",
                note="After a query edit the list cursor is re-anchored from the observed state (invariants only). toggle-up/down are generated only where the toggle succeeds.",
                ref="4/C09"),
    "C12": dict(engine="E-pkg/E-proc",
                technique="runtime monitor: expansion handed to the real /bin/sh and bash, recorded argv compared with the original strings; canary file; fake-tmux re-launch path with an argv/environment recorder; real sessions handing {n} / {} to the shell through become",
                text="Templates over all quoting placeholder forms with hostile item/query texts are expanded by the real code and evaluated by /bin/sh and bash; argv must equal the expected words and nothing else may run. The --tmux re-launch path is driven with a fake tmux and a recorder as argv[0].",
                note="No NUL bytes; {r}/{f} excluded by definition; fish not installed.",
                ref="4/C12"),
    "C13": dict(engine="E-pkg (race build)",
                technique="Go race detector (in-process harness and the whole fzf binary built -race in interactive sessions) + sequential-oracle monitor over published mergers + deterministic enumeration of cancellation points (point handlers) + porcupine linearizability checking of recorded histories",
                text="Real ChunkList/Matcher.Loop/Merger/caches with the harness as loader and coordinator under -race: every published merger equals the single-threaded filter of the snapshot of an issued request; cancellation injected at every chunk count for 2..12(40) chunks x 4 partition counts; Push/Snapshot/Clear and EventBox histories checked with porcupine; race reports in fzf code are violations.",
                note="F24 (Snapshot --tail copy vs trimLength cache) is a listed known finding with a stack-pair classifier. Only executed access pairs are seen by the race detector.",
                ref="4/C13"),
    "C16": dict(engine="E-pkg/E-proc",
                technique="runtime monitor: reply-grammar checker, side-effect monitor on the action channel and state handler, key-rule monitor over generated requests delivered with random write splits; process-level start-up rule",
                text="Generated valid/malformed/garbage requests with and without a configured key are handed to the real handler over net.Pipe under five write plans; replies must be well-formed, actions reach the channel iff the request is a complete POST with the exact key and equal the --bind parse of the same text, GET/rejected requests have no side effects, no state without the key; non-local listeners without a key exit 2.",
                note="Real TCP inside interactive sessions covers liveness, state invariance, the key rule end to end, POST == bind and the loopback bind; a stalled-terminal scenario (the session's tmux server is stopped while redraws and GETs arrive) decides 'no request can wedge fzf' as bounded progress after the terminal resumes.",
                ref="4/C16"),
    "C17": dict(engine="E-pkg/E-proc",
                technique="runtime monitor: totality (panic capture), structural equalities over parsed Options (override incl. colour schemes, parse-state canaries re-parsed between cases, commutation of unrelated options, concatenation of the three sources, malformed sources rejected), bind round-trip against generated specifications; process-level exit status",
                text="Argument vectors from the full option vocabulary x a value pool parse without panics; the binary exits 0/1 or 2 with a message; later occurrences override earlier ones structurally; file < env < argv including positional (--height/--tmux) precedence, and the three sources together equal the same words on one command line; unrelated options commute; generated --bind specifications (multi-key pairs, + append prefix, bare put) round-trip with byte-identical arguments in every delimiter form.",
                note="Expected expansion of an action name is its parse in isolation; punctuation keys alone.",
                ref="4/C17"),
    "C01": dict(engine="E-lib/E-proc",
                technique="runtime monitor: reference-model comparison (independent evaluator of the documented query grammar) over emitted sets of the real filter, library mode and process level, and over query sequences served by one real Matcher with its pattern and chunk caches",
                text="Every generated (list, query, options) triple is run through the real fzf (fzf.Run in library mode; the built binary over stdin for a share) and the emitted multiset is compared with the lines accepted by a reference evaluator written from the documentation. Interactive match lists are compared with the same reference through the C08 driver.",
                note="Trusted: the reference evaluator (refq, ~250 lines, shares only the accent table with fzf) and the well-formedness rules of generated queries.",
                ref="4/C01"),
    "C04": dict(engine="E-lib/E-proc",
                technique="runtime monitor: permutation check + metamorphic sub-list/pair order consistency + semantic tiebreak monitor on unambiguous workloads + access-pattern monitor on the real lazily merged list (toggle-sort twin matcher over the shared chunk cache; index probes vs sequential read vs single-threaded sort)",
                text="Filter output is checked to be a permutation of the reference matches; relative order of adjacent pairs and random sub-lists must equal their order when filtered alone (global sort == partitioned sort + merge) over 0..60000 lines, --tail, 1/2/16 CPUs; on single-occurrence exact-term workloads the order must follow score then the documented tiebreak criteria.",
                note="'end' and 'pathname' are only decided where the documentation is unambiguous.",
                ref="4/C04"),
    "C06": dict(engine="E-pkg/E-proc",
                technique="runtime monitor: reference split over recorded pusher deliveries (re-read after the last read), process-level stdin/stdout comparison with controlled write schedules, and a live-stream monitor: GET / of an interactive fzf reading from a FIFO held open by the harness, compared with the record model at trace-defined points (snapshot taken after every delivered record was read, its search displayed)",
                text="Reader.feed is driven with OS-like read results under exhaustive and generated cut plans around buffer/slab/delimiter boundaries; delivered records are compared at push time and again after all reads; the binary's stdout for -f '' with --read0/--tail/--header-lines is compared with the reference records under five write schedules.",
                note="Item ordinals are observed as the index field of GET / in the live-stream phase. Only read results an *os.File can produce are generated.",
                ref="4/C06"),
    "C10": dict(engine="E-pkg",
                technique="runtime monitor: partition-law and reference-selector oracles over Tokenize/Transform/with-nth renderer; reference evaluator per selected field for --nth; process-level output comparison for --accept-nth (with --ansi / --with-nth)",
                text="Partition law and recorded offsets for three delimiter kinds, every range expression with bounds -6..6 against a reference selector, --nth matching against the reference evaluator applied per field with offsets/positions checked against the full line.",
                note="Queries for the --nth oracle avoid delimiter characters; the last selected field is searched without its trailing delimiter (documented).",
                ref="4/C10"),
    "C11": dict(engine="E-pkg",
                technique="runtime monitor: regex oracle built from the documented expression, span well-formedness invariant, independent SGR/OSC-8 interpreter compared per character",
                text="Arbitrary byte strings: stripped text == ReplaceAll(documented expression); spans inside the text, ordered, disjoint; grammar streams: per-character colour/attributes/hyperlink and carried-over state equal an independent SGR interpreter.",
                note="F19 (empty SGR parameter skipped) and F20 (OSC-8 close with bare ESC) are listed known findings with witness classifiers.",
                ref="4/C11"),
    "C18": dict(engine="E-pkg",
                technique="runtime monitor: reference model of the history (entries, cursor, per-entry overlay) compared step by step with the real History and the file bytes, and with the prompt and file of interactive sessions (POSTed actions, raw ctrl-p/ctrl-n, eight endings)",
                text="Random multi-session histories over the real History API in the order the terminal uses it; returned strings after every navigation step and file bytes after every session are compared with the model.",
                note="API level for volume; prompt after every step and file after every ending (accept, Enter, become, print-query, accept-or-print-query; abort, ctrl-c, refused accept-non-empty) are driven by the interactive engine.",
                ref="4/C18"),
    "C19": dict(engine="E-pkg",
                technique="runtime monitor: reference walk over os.ReadDir compared with the paths pushed by the real walker on generated trees; unprivileged worker for unreadable directories",
                text="Generated trees x all 12 option combinations x skip lists x roots; multiset of pushed paths equals the reference walk; unreadable directories listed once.",
                note="F9 (hidden files listed) and F10 (symlinked directory classified as file) are listed known findings with witness classifiers.",
                ref="4/C19"),
    "C02": dict(engine="E-algo",
                technique="runtime monitor: witness/completeness oracle over exported matcher calls (exhaustive short strings + random + long inputs), crash-isolated worker processes",
                text="Every call of the seven exported matchers in the workload is observed and decided by an independent witness checker (positions, range, anchor, folding) and a brute-force completeness check; exhaustive for short strings over a class-covering alphabet, random and long (70k runes / 2.6k pattern, every slab kind x position tracking) otherwise. Says nothing about inputs not generated.",
                note="Trusted: Go's unicode tables, fzf's accent table content, the reference folding (unicode.ToLower per rune). Pattern pre-conditions are those the query parser guarantees.",
                ref="4/C02"),
    "C03": dict(engine="E-algo",
                technique="runtime monitor: reference-model comparison (whole-line int evaluation of the scoring recurrence, embedding enumeration as upper bound, linear/closed-form scoring for the exact family)",
                text="Each observed score is compared with an unoptimised re-evaluation of the documented recurrence (no window, slab, int16 or offset arithmetic) inside the domain N*M<=102400, bounded above by the best enumerated alignment for short inputs; V1/exact/prefix/suffix by linear evaluation of the reported occurrence, equal/boundary by closed form.",
                note="The reference recurrence transcribes the documented programme; a misconception shared with the implementation would go unnoticed. F7 (single-character early exit) is a listed known finding.",
                ref="4/C03"),
    "C05": dict(engine="E-algo",
                technique="runtime monitor: metamorphic equality under adversarial slab histories (stale contents, and the V2/V1 hand-over point after oversized calls), representation and withPos changes, at matcher and at whole-pattern level; sub-list consistency at process level (also under --nth)",
                text="Every call made after an arbitrary history on a shared slab (stale contents, extreme values) must equal the same call with nil/fresh slab, the other text representation and the other withPos setting; process level: filtering a sub-list equals the full result restricted to it.",
                note="V2 with a slab smaller than N*M is a documented fallback and excluded from nil-vs-slab equality. F12 (Start without positions) is a listed known finding.",
                ref="4/C05"),
}

NOT_YET = {}

def main():
    props = [json.loads(l) for l in open(os.path.join(V, "properties.jsonl"))]
    checks = []
    na = []
    for p in props:
        pid = p["id"]
        c = CHECKS.get(pid)
        if not c:
            na.append({"property_id": pid, "reason": NOT_YET.get(pid, "check not built yet in this session (work in progress); no claim is made")})
            continue
        checks.append({
            "property_id": pid,
            "quick_cmd": f"./check {pid} quick",
            "thorough_cmd": f"./check {pid} thorough",
            "evidence_file": f"/verif/evidence/{pid}.json",
            "replay_cmd_template": "cat {path}",
            "engine": c["engine"],
            "level_claimed": {"category": "exploration", "text": c["text"], "design_ref": "DESIGN.md section " + c["ref"]},
            "level_note": c["note"],
            "technique": c["technique"],
        })
    commits = subprocess.run(["git", "-C", "/repo", "log", "--format=%h %s", "664abd0..HEAD"], capture_output=True, text=True).stdout.strip().split("\n")
    hooks = [c.split()[0] for c in commits if c and c.split(" ", 1)[1].startswith("verif:")]
    m = {
        "version": 1,
        "setup_cmd": "cd /verif/harness && GOFLAGS=-mod=mod GOPROXY=off GOSUMDB=off GOTOOLCHAIN=local go build -tags verif -o /dev/null ./cmd/vh",
        "hooks": {
            "guard": "verif (Go build tag)",
            "enable": "go build -tags verif (harness module /verif/harness has `replace github.com/junegunn/fzf => /repo`; ./check rebuilds harness and fzf from /repo's working tree on every run)",
            "baseline_off_cmd": "cd /repo && GOFLAGS=-mod=mod GOPROXY=off GOSUMDB=off GOTOOLCHAIN=local go test -vet=off -count=1 -timeout 25m ./...",
            "source_commits": hooks,
            "add_only": True,
        },
        "engines": [
            {"name": "E-algo", "path": "harness/algochk", "serves_properties": ["C02", "C03", "C05"], "kind_free_text": "in-process calls of exported algo.* matchers from worker processes, reference oracles"},
            {"name": "E-lib/E-proc", "path": "harness/filterchk, harness/fzfrun", "serves_properties": ["C01", "C04", "C05"], "kind_free_text": "real filter in library mode (fzf.ParseOptions + fzf.Run with channels) and as a child process built from the working tree"},
            {"name": "E-tty", "path": "harness/tty, harness/livechk", "serves_properties": ["C07", "C08", "C09", "C14", "C15", "C20"], "kind_free_text": "the built fzf binary inside a private tmux server driven through --listen / keys; GET / state, stdout, exit status; hook trace for logical-time quiescence and failpoints"},
            {"name": "E-pkg", "path": "harness/{fieldchk,ansichk,readchk,histchk,walkchk,phchk,matchchk,httpchk,optchk}", "serves_properties": ["C06", "C10", "C11", "C12", "C13", "C16", "C17", "C18", "C19"], "kind_free_text": "unexported units driven at their boundary through the verif export shims"},
        ],
        "checks": checks,
        "not_applicable": na,
        "notes": "Technique family: runtime monitoring. Every check observes executions of code built from /repo's working tree; verdicts read 'held on what was observed'. known_findings.json lists genuine deviations (known) and repaired ones (fixed).",
    }
    json.dump(m, open(os.path.join(V, "MANIFEST.json"), "w"), indent=1)
    print("checks:", [c["property_id"] for c in checks], "not_applicable:", len(na))

main()

package livechk

import (
	"fmt"
	"math/rand"
	"regexp"
	"strings"
	"syscall"
	"time"

	"verif/harness/fzfrun"
	"verif/harness/tty"
	"verif/harness/vk"
)

func init() { vk.RegisterWorker("c15", workerC15) }

func MainC15(prop, tier string) int {
	r := vk.New("C15", tier)
	r.Rule = "interactive sessions in a private tmux server (the terminal emulator) with ASCII pointer/marker/ellipsis and no scrollbar, over three layouts x info styles (default, inline, hidden) x header settings (none, --header, --header-lines, both, --header-first) x no border / --border x single / multi (fullscreen), windows of 30-110 columns x 8-30 rows with resizes, lists of short and over-long ASCII lines; histories of cursor moves, page moves, toggles, query edits, reloads, sort toggles, and layout shifts without a resize (toggle-header one to three times in a row - the comparison then expects no header rows while it is hidden - and change-header growing by a line and shrinking back). After quiescence a nonce handshake (change-prompt(<nonce>): once the nonce is on the screen every earlier byte has been interpreted) synchronises capture-pane with GET /, then the screen is parsed: prompt row shows prompt+query; info shows matched/total (and selected); list rows are a contiguous window of matches[] containing the cursor, in the layout's direction, each equal to the line or a truncated form with the ellipsis at the cut end(s) and never wider than the window; pointer on exactly the current row, marker on exactly the selected rows; header rows hold the header texts and are not list rows. distinct = (geometry options, action kinds, truncation seen) signatures"
	r.Assumptions = []string{"ASCII items (exact comparison); capture-pane trims trailing blanks, so rows are compared right-trimmed", "ordering, not timing, decides when the screen is read (nonce handshake); a nonce that never appears is inconclusive"}
	if _, err := fzfrun.Bin(); err != nil {
		r.Inconclusive(err.Error())
		r.Floor("screens_compared", 1)
		return r.Finish()
	}
	r.Fanout("c15", vk.NumWorkers(), 90*time.Minute)
	r.Floor("screens_compared", 100)
	r.Floor("list_rows_compared", 500)
	return r.Finish()
}

var infoRe = regexp.MustCompile(`(\d+)/(\d+)(?: \((\d+)\))?`)

type geom struct {
	layout    string
	info      string // default | inline | hidden
	header    []string
	headerN   int
	border    bool
	multi     bool
	height    int // 0 = fullscreen
	headerFst bool
}

func workerC15(r *vk.Run, w, n int, args []string) {
	rng := rand.New(rand.NewSource(r.Seed*65003 + int64(w)*163 + 1))
	sessions := 400
	if !r.Quick() {
		sessions = 12000
	}
	per := sessions/n + 1
	for i := 0; i < per; i++ {
		sessionC15(r, rng, i)
	}
}

func sessionC15(r *vk.Run, rng *rand.Rand, idx int) {
	g := geom{layout: []string{"default", "reverse", "reverse-list"}[rng.Intn(3)], info: []string{"default", "inline", "hidden", "inline-right", "right"}[rng.Intn(5)]}
	g.border = rng.Intn(3) == 0
	g.multi = rng.Intn(2) == 0
	if rng.Intn(3) == 0 {
		g.header = []string{"HEADER-ONE"}
		if rng.Intn(2) == 0 {
			g.header = []string{"HEADER-ONE", "HEADER-TWO"}
		}
	}
	if rng.Intn(3) == 0 {
		g.headerN = 1 + rng.Intn(2)
	}
	if (len(g.header) > 0 || g.headerN > 0) && rng.Intn(3) == 0 {
		g.headerFst = true
	}
	cols, rows := 30+rng.Intn(80), 8+rng.Intn(22)
	// (--height mode moves the fzf area inside the terminal; only fullscreen geometry is parsed here)
	nonce := "PRM>"
	fzfArgs := []string{"--prompt", nonce + " ", "--no-unicode", "--pointer", ">", "--marker", "*", "--ellipsis", "..", "--no-scrollbar", "--no-mouse", "--no-separator", "--layout=" + g.layout}
	switch g.info {
	case "inline":
		fzfArgs = append(fzfArgs, "--info=inline")
	case "hidden":
		fzfArgs = append(fzfArgs, "--info=hidden")
	case "right":
		fzfArgs = append(fzfArgs, "--info=right")
	case "inline-right":
		fzfArgs = append(fzfArgs, "--info=inline-right")
	}
	if g.border {
		fzfArgs = append(fzfArgs, "--border")
	}
	if g.multi {
		fzfArgs = append(fzfArgs, "--multi")
	}
	if len(g.header) > 0 {
		fzfArgs = append(fzfArgs, "--header", strings.Join(g.header, "\n"))
	}
	if g.headerN > 0 {
		fzfArgs = append(fzfArgs, fmt.Sprintf("--header-lines=%d", g.headerN))
	}
	if g.headerFst {
		fzfArgs = append(fzfArgs, "--header-first")
	}
	if g.height > 0 {
		fzfArgs = append(fzfArgs, fmt.Sprintf("--height=%d", g.height))
	}
	// items: unique ASCII lines, some much longer than the window
	nitems := []int{0, 1, 3, 12, 60}[rng.Intn(5)]
	mk := func(tag string, n int) []string {
		var out []string
		for i := 0; i < n; i++ {
			l := fmt.Sprintf("%s%03d %s", tag, i, []string{"alpha", "beta", "gamma", "ab", "x"}[i%5])
			if i%4 == 3 {
				l += " " + strings.Repeat(fmt.Sprintf("long-tail%d-", i), 12) + fmt.Sprintf("end%d", i)
			} else if i%4 == 1 {
				// lengths around the point where a line stops fitting (window, or window inside a border)
				want := cols - 7 + (i/4)%7
				if i%8 == 5 {
					want -= 4
				}
				// (the filler carries the line number every few columns, so that a window cut out of
				// the middle of one line cannot be mistaken for another line or a header)
				for len(l) < want {
					l += string(rune('a'+len(l)%26)) + fmt.Sprint(i)
				}
				l = l[:max(want, 12)]
			}
			out = append(out, l)
		}
		return out
	}
	lines := mk("ln", nitems+g.headerN)
	altPath := ""
	s, err := tty.Start(tty.StartOpts{Args: fzfArgs, Input: []byte(joinLines(lines)), Cols: cols, Rows: rows, Seed: r.Seed})
	if err != nil {
		r.Inconclusive("start: " + err.Error())
		if s != nil {
			s.Close()
		}
		return
	}
	defer s.Close()
	_ = altPath
	headerLines := lines[:min(g.headerN, len(lines))]
	var hist []string
	kinds := map[string]bool{}
	sawTrunc := false
	hdrHidden := false
	rounds := 3 + rng.Intn(6)
	for round := 0; round < rounds; round++ {
		for k := 0; k < 1+rng.Intn(4); k++ {
			var a string
			switch c := rng.Intn(12); {
			case c < 4:
				a = []string{"up", "down", "up", "down", "first", "last", "page-up", "page-down", "half-page-down"}[rng.Intn(9)]
				kinds["move"] = true
			case c < 6:
				if g.multi {
					a = []string{"toggle", "toggle+down", "toggle+up", "select-all", "deselect-all", "toggle-all"}[rng.Intn(6)]
					kinds["select"] = true
				} else {
					a = "down"
				}
			case c < 8:
				a = "put(" + []string{"a", "l", "0", "1", "x", "e"}[rng.Intn(6)] + ")"
				kinds["query"] = true
			case c < 9:
				// edits that change the query without moving the cursor, and cursor motion
				a = []string{"backward-delete-char", "backward-char", "beginning-of-line", "delete-char", "kill-line", "change-query(al)", "change-query(ln)", "change-query(x)", "forward-char", "kill-word"}[rng.Intn(10)]
				kinds["query"] = true
			case c < 10:
				a = "toggle-sort"
				kinds["sort"] = true
			case c < 11:
				a = "clear-query"
				kinds["query"] = true
			default:
				a = "pos(" + fmt.Sprint(1+rng.Intn(nitems+1)) + ")"
				kinds["move"] = true
			}
			var seqn []string
			if rng.Intn(14) == 0 {
				// jump mode replaces the pointer column by labels; an action from outside ends it and the
				// column has to be repainted (the second action repaints nothing by itself)
				seqn = []string{"jump", "change-prompt(" + nonce + " )"}
				kinds["jump"] = true
			} else if g.multi && rng.Intn(10) == 0 {
				// exactly half of the matches selected, then toggle-all: the number of selected items stays
				// the same, the markers must swap
				if stq, err := s.Get(0); err == nil && stq.MatchCount >= 2 && stq.MatchCount%2 == 0 && stq.MatchCount <= 60 {
					seqn = append(seqn, "deselect-all")
					for i := 1; i <= stq.MatchCount/2; i++ {
						seqn = append(seqn, fmt.Sprintf("pos(%d)+select", i))
					}
					seqn = append(seqn, "toggle-all")
					kinds["half-toggle-all"] = true
				}
			}
			if len(seqn) == 0 && (len(g.header) > 0 || g.headerN > 0) && rng.Intn(7) == 0 {
				// the rows of prompt, info and list move without a resize: the header is hidden / shown again
				// (1-3 toggles in a row), or grows by a line and shrinks back; rows that change their role
				// must be repainted
				if len(g.header) > 0 && rng.Intn(2) == 0 {
					orig := strings.Join(g.header, "\n")
					seqn = []string{"change-header(" + orig + "\nHEADER-EXTRA)", "change-header(" + orig + ")"}
					kinds["header-grow-shrink"] = true
				} else {
					n := 1 + rng.Intn(3)
					for i := 0; i < n; i++ {
						seqn = append(seqn, "toggle-header")
					}
					if n%2 == 1 {
						hdrHidden = !hdrHidden
					}
					kinds["toggle-header"] = true
				}
			}
			if len(seqn) == 0 {
				seqn = []string{a}
			}
			for _, a := range seqn {
				if code, err := s.Post(a); err != nil || code != 200 {
					r.Inconclusive(fmt.Sprintf("POST %q: %v %d", a, err, code))
					return
				}
				hist = append(hist, a)
				if !s.WaitConsumed(20 * time.Second) {
					r.Inconclusive("batch not consumed: " + a)
					return
				}
			}
		}
		if nc, nr := 30+rng.Intn(80), 8+rng.Intn(22); rng.Intn(3) == 0 && (nc != cols || nr != rows) {
			// (a resize to the current size changes nothing and sends no signal)
			cols, rows = nc, nr
			s.Resize(cols, rows)
			hist = append(hist, fmt.Sprintf("resize %dx%d", cols, rows))
			kinds["resize"] = true
			if !s.WaitRedraw(cols, rows, 20*time.Second) {
				psz, _ := s.PaneSize()
				var redraws []string
				for _, e := range s.Trace() {
					if e.Kind == "term.redraw" {
						redraws = append(redraws, fmt.Sprintf("%dx%d", e.A, e.B))
					}
				}
				s.Signal(syscall.SIGWINCH)
				after := s.WaitRedraw(cols, rows, 3*time.Second)
				r.Inconclusive(fmt.Sprintf("fzf did not redraw for the new size %dx%d (tmux pane is %s; redraws so far %v; history %v; after a manual SIGWINCH: %v; args %v)", cols, rows, psz, redraws, tailS(hist, 8), after, fzfArgs[12:]))
				return
			}
		}
		if _, ok := s.WaitQuiescent(30 * time.Second); !ok {
			if _, exited := s.ExitCode(); exited {
				r.Violate(vk.Violation{Summary: "C15: fzf exited: " + s.Stderr(), Witness: map[string]any{"fzf_args": fzfArgs, "history": hist}})
			} else {
				r.Inconclusive("no quiescence: " + s.LastWait)
			}
			return
		}
		// The prompt is fixed ("PRM> "); nothing is posted between the last action and the comparison, so
		// a row the last actions should have repainted, but did not, is still stale when it is read.
		// tmux is synchronised by order, not by time: SyncScreen returns once everything fzf wrote has
		// been interpreted. A screen is paired with a state when the state read before and after it is
		// the same and the hook trace did not grow in between.
		var scr []string
		var st *tty.Status
		stable := false
		for attempt := 0; attempt < 100 && !stable; attempt++ {
			n0 := len(s.Trace())
			st1, err := s.Get(1000000)
			if err != nil {
				r.Inconclusive("GET: " + err.Error())
				return
			}
			if !s.SyncScreen(10 * time.Second) {
				r.Inconclusive("tmux did not acknowledge the synchronisation mark")
				return
			}
			a, _ := s.Capture()
			st2, err := s.Get(1000000)
			if err != nil {
				r.Inconclusive("GET: " + err.Error())
				return
			}
			if sameState(st1, st2) && len(s.Trace()) == n0 {
				scr, st, stable = a, st2, true
			} else {
				time.Sleep(20 * time.Millisecond)
			}
		}
		if !stable {
			r.Inconclusive("the screen did not become stable")
			return
		}
		r.Eval(1)
		r.Count("screens_compared", 1)
		gNow, hlNow := g, headerLines
		if hdrHidden {
			gNow.header, gNow.headerN, hlNow = nil, 0, nil
			r.Count("screens_with_hidden_header", 1)
		}
		why, trunc, nrows := compareScreen(scr, st, gNow, nonce, hlNow, cols)
		r.Count("list_rows_compared", int64(nrows))
		if trunc {
			sawTrunc = true
		}
		if why != "" {
			r.Violate(vk.Violation{Summary: fmt.Sprintf("C15: %s (options %v, window %dx%d, last actions %v)", why, fzfArgs[13:], cols, rows, tailS(hist, 5)),
				Witness: map[string]any{"fzf_args": fzfArgs, "cols": cols, "rows": rows, "history": hist, "screen": scr,
					"state": map[string]any{"query": st.Query, "position": st.Position, "matchCount": st.MatchCount, "totalCount": st.TotalCount, "selected": st.Selected, "matches_head": headItems(st.Matches, 12)}}})
			return
		}
	}
	r.Distinct(fmt.Sprintf("%s info=%s hdr%d/%d first%v border%v multi%v height%v n%d %v trunc%v", g.layout, g.info, len(g.header), g.headerN, g.headerFst, g.border, g.multi, g.height > 0, nitems, keysOf(kinds), sawTrunc))
	if idx == 0 {
		scr, _ := s.Capture()
		r.Sample(map[string]any{"fzf_args": fzfArgs, "history": hist, "screen": scr})
	}
}

// compareScreen returns a non-empty reason when the screen disagrees with the state.
func compareScreen(scr []string, st *tty.Status, g geom, nonce string, headerLines []string, cols int) (string, bool, int) {
	rows := append([]string(nil), scr...)
	// drop the rows outside the fzf area (--height: the rest of the terminal is blank)
	width := cols
	if g.border {
		top, bot := -1, -1
		for i, l := range rows {
			if strings.HasPrefix(l, "+-") && strings.HasSuffix(l, "-+") {
				if top < 0 {
					top = i
				} else {
					bot = i
				}
			}
		}
		if top < 0 || bot <= top {
			return "the outer border is not drawn", false, 0
		}
		inner := rows[top+1 : bot]
		rows = nil
		for _, l := range inner {
			if !strings.HasPrefix(l, "|") {
				return fmt.Sprintf("a row inside the border does not start at the border: %q", l), false, 0
			}
			l = strings.TrimPrefix(l, "|")
			l = strings.TrimSuffix(l, "|")
			if strings.HasPrefix(l, " ") {
				l = l[1:]
			}
			rows = append(rows, strings.TrimRight(l, " "))
		}
		width = cols - 4
	}
	for _, l := range rows {
		if len(l) > width {
			return fmt.Sprintf("a row is wider than the window (%d > %d): %q", len(l), width, l), false, 0
		}
	}
	// prompt row
	prow := -1
	for i, l := range rows {
		if strings.HasPrefix(l, nonce) {
			prow = i
		}
	}
	if prow < 0 {
		return "the prompt row is not at the start of a row", false, 0
	}
	ptext := strings.TrimPrefix(rows[prow], nonce)
	ptext = strings.TrimPrefix(ptext, " ")
	infoText := ""
	if g.info == "inline" {
		// "query  < 3/10 (1)"
		if i := strings.LastIndex(ptext, "  < "); i >= 0 {
			infoText = ptext[i+4:]
			ptext = ptext[:i]
		} else if strings.HasPrefix(ptext, " < ") || strings.HasPrefix(ptext, "< ") {
			infoText = strings.TrimLeft(ptext, " <")
			ptext = ""
		}
	}
	if g.info == "inline-right" {
		// "query            3/10 (1)": the counts are right-aligned on the prompt row
		if loc := infoRe.FindAllStringIndex(ptext, -1); len(loc) > 0 {
			last := loc[len(loc)-1]
			if last[1] == len(strings.TrimRight(ptext, " ")) && last[0] > 0 && ptext[last[0]-1] == ' ' {
				infoText = ptext[last[0]:]
				ptext = strings.TrimRight(ptext[:last[0]], " ")
			}
		}
		if infoText == "" {
			want := fmt.Sprintf("%d/%d", st.MatchCount, st.TotalCount)
			if len(nonce)+1+len(st.Query)+1+len(want)+8 < width {
				return fmt.Sprintf("the prompt row %q does not show the counts %s although there is room", rows[prow], want), false, 0
			}
			infoText = want // no room: nothing to compare
			if g.multi && len(st.Selected) > 0 {
				infoText += fmt.Sprintf(" (%d)", len(st.Selected))
			}
		}
	}
	wantQ := strings.TrimRight(st.Query, " ")
	if strings.TrimRight(ptext, " ") != wantQ {
		// a query longer than the row is scrolled: accept a suffix/infix only when it cannot fit
		if len(nonce)+1+len(st.Query)+2 < width {
			return fmt.Sprintf("the prompt row shows %q, the query is %q", ptext, st.Query), false, 0
		}
	}
	used := map[int]bool{prow: true}
	// info
	if g.info == "default" || g.info == "right" {
		irow := -1
		for _, cand := range []int{prow - 1, prow + 1} {
			if cand >= 0 && cand < len(rows) && infoRe.MatchString(rows[cand]) && strings.HasPrefix(strings.TrimLeft(rows[cand], " "), fmt.Sprint(st.MatchCount)+"/") {
				irow = cand
			}
		}
		if irow < 0 {
			return fmt.Sprintf("no info row next to the prompt shows %d/%d", st.MatchCount, st.TotalCount), false, 0
		}
		infoText = strings.TrimSpace(rows[irow])
		used[irow] = true
	}
	if g.info != "hidden" {
		m := infoRe.FindStringSubmatch(infoText)
		if m == nil {
			return fmt.Sprintf("the info text %q has no matched/total counts", infoText), false, 0
		}
		if m[1] != fmt.Sprint(st.MatchCount) || m[2] != fmt.Sprint(st.TotalCount) {
			return fmt.Sprintf("the info shows %s/%s, the state has %d/%d", m[1], m[2], st.MatchCount, st.TotalCount), false, 0
		}
		sel := 0
		if m[3] != "" {
			fmt.Sscan(m[3], &sel)
		}
		if g.multi && sel != len(st.Selected) {
			return fmt.Sprintf("the info shows %d selected, the state has %d", sel, len(st.Selected)), false, 0
		}
	}
	// header rows: the header texts, each exactly once, with the two-column gutter blank
	headers := append(append([]string{}, g.header...), headerLines...)
	var hrow []int
	for _, h := range headers {
		found := 0
		for i, l := range rows {
			if used[i] {
				continue
			}
			if strings.HasPrefix(l, "  ") && truncMatches(l[2:], h, width) {
				found++
				used[i] = true
				hrow = append(hrow, i)
				break
			}
		}
		if found != 1 {
			return fmt.Sprintf("header line %q is not shown (or shown with a pointer/marker)", h), false, 0
		}
	}
	// order: the lines of --header read top to bottom in every layout (man page); the lines taken by
	// --header-lines follow the direction of the list
	for i := 1; i < len(g.header); i++ {
		if hrow[i] != hrow[i-1]+1 {
			return fmt.Sprintf("the --header lines are not on consecutive rows in the given order (rows %v)", hrow[:len(g.header)]), false, 0
		}
	}
	for i := len(g.header) + 1; i < len(hrow); i++ {
		d := hrow[i] - hrow[i-1]
		if g.layout == "default" {
			d = -d
		}
		if d != 1 {
			return fmt.Sprintf("the --header-lines rows do not follow the direction of the list (rows %v, layout %s)", hrow[len(g.header):], g.layout), false, 0
		}
	}
	// list rows: everything else that is not blank
	type lrow struct {
		ptr, mark bool
		text      string
	}
	var list []lrow
	var listIdx []int
	for i, l := range rows {
		if used[i] || strings.TrimSpace(l) == "" {
			continue
		}
		if len(l) < 2 {
			l += "  "
		}
		p, m := l[0], l[1]
		if p != '>' && p != ' ' || m != '*' && m != ' ' {
			return fmt.Sprintf("a list row does not start with the pointer/marker gutter: %q", l), false, 0
		}
		list = append(list, lrow{p == '>', m == '*', l[2:]})
		listIdx = append(listIdx, i)
	}
	// placement of the --header rows: between the list and the prompt, or - with --header-first - on the
	// far side of the prompt ("print header before the prompt line")
	if len(g.header) > 0 && len(listIdx) > 0 {
		lo, hi, h := listIdx[0], listIdx[len(listIdx)-1], hrow[0]
		ok := false
		switch {
		case g.layout == "reverse" && !g.headerFst:
			ok = prow < h && h < lo
		case g.layout == "reverse" && g.headerFst:
			ok = h < prow && prow < lo
		case !g.headerFst:
			ok = hi < h && h < prow
		default:
			ok = hi < prow && prow < h
		}
		if !ok {
			return fmt.Sprintf("the --header rows are misplaced for layout %s, header-first=%v: header at screen row %d, prompt at %d, list rows %d..%d", g.layout, g.headerFst, h, prow, lo, hi), false, len(list)
		}
	}
	// the list is one block of rows: no header, prompt, info or blank row lies between two list rows
	for k := 1; k < len(listIdx); k++ {
		if listIdx[k] != listIdx[k-1]+1 {
			return fmt.Sprintf("the list rows are not contiguous: screen rows %d and %d are list rows, row %d (%q) between them is not", listIdx[k-1], listIdx[k], listIdx[k-1]+1, rows[listIdx[k-1]+1]), false, len(list)
		}
	}
	avail := len(rows) - len(used)
	for i := range rows {
		_ = i
	}
	if g.layout == "default" {
		// index grows upward
		for i, j := 0, len(list)-1; i < j; i, j = i+1, j-1 {
			list[i], list[j] = list[j], list[i]
		}
	}
	wantRows := st.MatchCount
	if wantRows > avail {
		wantRows = avail
	}
	if len(list) != wantRows {
		return fmt.Sprintf("%d list rows are drawn, %d results fit the %d available rows", len(list), wantRows, avail), false, len(list)
	}
	if st.MatchCount == 0 || len(list) == 0 {
		return "", false, 0 // nothing matched, or the window has no room for list rows
	}
	// locate the pointer
	pidx := -1
	for i, lr := range list {
		if lr.ptr {
			if pidx >= 0 {
				return "the pointer is drawn on two rows", false, len(list)
			}
			pidx = i
		}
	}
	if pidx < 0 {
		return "the pointer is not drawn on any row", false, len(list)
	}
	off := st.Position - pidx
	if off < 0 || off+len(list) > len(st.Matches) {
		return fmt.Sprintf("the pointer is on list row %d but the cursor is at position %d of %d", pidx, st.Position, st.MatchCount), false, len(list)
	}
	selected := map[int]bool{}
	for _, it := range st.Selected {
		selected[it.Index] = true
	}
	trunc := false
	for i, lr := range list {
		it := st.Matches[off+i]
		if !truncMatches(lr.text, it.Text, width) {
			return fmt.Sprintf("list row %d shows %q, the result at position %d is %q", i, lr.text, off+i, it.Text), false, len(list)
		}
		if lr.text != it.Text {
			trunc = true
		}
		if lr.mark != selected[it.Index] {
			return fmt.Sprintf("the marker on row %q is %v, selected=%v", lr.text, lr.mark, selected[it.Index]), false, len(list)
		}
	}
	return "", trunc, len(list)
}

// truncMatches: width is the width of the list window. fzf keeps a two-column gutter and reserves
// the last column, so a text of up to width-3 columns fits and must be shown complete; a text wider
// than width-2 cannot be complete; in both cases a cut form is a contiguous part of the text with the
// ellipsis ".." at the cut end(s) and never reaches beyond the window.
func truncMatches(shown, text string, width int) bool {
	shown = strings.TrimRight(shown, " ")
	if len(shown) > width-2 {
		return false
	}
	if shown == strings.TrimRight(text, " ") {
		return true
	}
	if len(text) <= width-3 {
		return false
	}
	core := shown
	left, right := false, false
	if strings.HasPrefix(core, "..") {
		core, left = core[2:], true
	}
	if strings.HasSuffix(core, "..") {
		core, right = core[:len(core)-2], true
	}
	if !left && !right {
		return false
	}
	i := strings.Index(text, core)
	if i < 0 {
		return false
	}
	if !left && i != 0 {
		// cut only on the right: the shown part must be a prefix
		return strings.HasPrefix(text, core)
	}
	if !right {
		return strings.HasSuffix(text, core)
	}
	return true
}

func sameState(a, b *tty.Status) bool {
	if a.Query != b.Query || a.Position != b.Position || a.MatchCount != b.MatchCount || a.TotalCount != b.TotalCount || len(a.Selected) != len(b.Selected) || len(a.Matches) != len(b.Matches) {
		return false
	}
	for i := range a.Matches {
		if a.Matches[i] != b.Matches[i] {
			return false
		}
	}
	for i := range a.Selected {
		if a.Selected[i] != b.Selected[i] {
			return false
		}
	}
	return true
}

func max(a, b int) int {
	if a > b {
		return a
	}
	return b
}

// Package fzfrun runs the real fzf: in-process through the library entry
// points (fzf.ParseOptions + fzf.Run with Input/Output channels) and as a
// child process built from /repo's working tree.
package fzfrun

import (
	"bytes"
	"fmt"
	"os"
	"os/exec"
	"path/filepath"
	"sync"
	"time"

	fzf "github.com/junegunn/fzf/src"

	"verif/harness/vk"
)

// Lib runs fzf in library mode (filter mode expected). Not safe for concurrent use
// (fzf keeps package-level state): one run at a time per process.
func Lib(args []string, lines []string) (out []string, code int, err error) {
	opts, perr := fzf.ParseOptions(false, args)
	if perr != nil {
		return nil, 2, perr
	}
	in := make(chan string, len(lines)+1)
	outc := make(chan string, 1024)
	opts.Input = in
	opts.Output = outc
	for _, l := range lines {
		in <- l
	}
	close(in)
	done := make(chan struct{})
	go func() {
		for s := range outc {
			out = append(out, s)
		}
		close(done)
	}()
	code, err = fzf.Run(opts)
	close(outc)
	<-done
	return out, code, err
}

var (
	binOnce sync.Once
	binPath string
	binErr  error
)

// Repo is the fzf checkout under verification.
func Repo() string {
	if d := os.Getenv("VERIF_REPO"); d != "" {
		return d
	}
	return "/repo"
}

// Bin builds (once per invocation) the fzf binary from the working tree with the verif tag.
func Bin() (string, error) {
	binOnce.Do(func() {
		if p := os.Getenv("VERIF_FZF_BIN"); p != "" {
			binPath = p
			return
		}
		binPath = filepath.Join(vk.Scratch(), "fzf")
		cmd := exec.Command("go", "build", "-tags", "verif", "-o", binPath, ".")
		cmd.Dir = Repo()
		if out, err := cmd.CombinedOutput(); err != nil {
			binErr = fmt.Errorf("building fzf: %v\n%s", err, out)
			return
		}
		os.Setenv("VERIF_FZF_BIN", binPath) // worker processes reuse it
	})
	return binPath, binErr
}

// BinRace builds the race-instrumented binary.
func BinRace() (string, error) {
	if p := os.Getenv("VERIF_FZF_RACE_BIN"); p != "" {
		return p, nil
	}
	p := filepath.Join(vk.Scratch(), "fzf-race")
	cmd := exec.Command("go", "build", "-race", "-tags", "verif", "-o", p, ".")
	cmd.Dir = Repo()
	if out, err := cmd.CombinedOutput(); err != nil {
		return "", fmt.Errorf("building fzf -race: %v\n%s", err, out)
	}
	os.Setenv("VERIF_FZF_RACE_BIN", p)
	return p, nil
}

// CleanEnv is the scrubbed environment given to fzf processes.
func CleanEnv(extra ...string) []string {
	env := []string{"PATH=" + os.Getenv("PATH"), "HOME=" + vk.Scratch(), "SHELL=/bin/sh", "TERM=screen-256color", "LANG=C.UTF-8", "LC_ALL=C.UTF-8", "TMPDIR=" + vk.Scratch()}
	return append(env, extra...)
}

type ProcResult struct {
	Stdout   []byte
	Stderr   []byte
	Code     int
	TimedOut bool
}

// Proc runs the fzf binary with stdin bytes.
func Proc(bin string, args []string, stdin []byte, watchdog time.Duration, env ...string) ProcResult {
	cmd := exec.Command(bin, args...)
	cmd.Env = CleanEnv(env...)
	cmd.Stdin = bytes.NewReader(stdin)
	var so, se bytes.Buffer
	cmd.Stdout, cmd.Stderr = &so, &se
	if err := cmd.Start(); err != nil {
		return ProcResult{Code: -1, Stderr: []byte(err.Error())}
	}
	done := make(chan error, 1)
	go func() { done <- cmd.Wait() }()
	select {
	case err := <-done:
		code := 0
		if ee, ok := err.(*exec.ExitError); ok {
			code = ee.ExitCode()
		} else if err != nil {
			code = -1
		}
		return ProcResult{Stdout: so.Bytes(), Stderr: se.Bytes(), Code: code}
	case <-time.After(watchdog):
		cmd.Process.Kill()
		<-done
		return ProcResult{Stdout: so.Bytes(), Stderr: se.Bytes(), Code: -1, TimedOut: true}
	}
}

// Package livechk holds the interactive checks that compare the live state of
// fzf (GET / after trace-defined quiescence) with reference models: C08
// (results converge to a fresh filter), and helpers shared with C09/C15/C20.
package livechk

import (
	"fmt"
	"math/rand"
	"os"
	"path/filepath"
	"strings"
	"syscall"
	"time"

	"verif/harness/filterchk"
	"verif/harness/fzfrun"
	"verif/harness/tty"
	"verif/harness/vk"
)

func init() { vk.RegisterWorker("c08", workerC08) }

func MainC08(prop, tier string) int {
	r := vk.New("C08", tier)
	r.Rule = "interactive sessions of the built binary in a private tmux server, driven through --listen: histories of 5-30 batches of typing (put), deleting (backward-delete-char, unix-word-rubout, kill-line), clear-query, change-query, toggle-sort, exclude, change-nth, reload / reload-sync, including multi-action batches and queries that extend / shrink / change kind; inputs of 50..120000 lines delivered instantly or by a slow producer; batches paced one at a time or queued behind an execute-silent so that they are consumed back to back; failpoint tables delaying scan chunks, publishes and the UI loop. At trace-defined quiescence (all batches consumed, reader finished, the last issued search request published and handed to the terminal) GET / (query, counts, matches in order, item indices) must equal `fzf --filter <query>` over the currently loaded input with the equivalent options. distinct = (action-kind set, input class, pacing, failpoint table) signatures. The in-process twin (real Matcher.Loop, harness as coordinator: the last published result answers the last request) runs in the C13 harness and is reported there."
	r.Assumptions = []string{"quiescence is detected from the hook trace (request sequence numbers), never from wall-clock sleeps; a 30 s watchdog yields 'inconclusive'", "the query string itself is modelled only for end-of-line editing here (C09 covers the editor)", "exclude removes the current item; the harness reads it with GET before posting"}
	if _, err := fzfrun.Bin(); err != nil {
		r.Inconclusive(err.Error())
		r.Floor("quiescent_comparisons", 1)
		return r.Finish()
	}
	r.Fanout("c08", vk.NumWorkers(), 90*time.Minute)
	r.Floor("quiescent_comparisons", 100)
	r.Floor("sessions", 10)
	return r.Finish()
}

// world is the harness's knowledge of what is loaded.
type world struct {
	lines    []string     // current input (after header-lines)
	excluded map[int]bool // indices
	nth      string
	sortOn   bool
	query    string
	tail     int
	header   int
	extra    []string // matching options given to both the session and the fresh filter
}

func genInput(rng *rand.Rand, n int, tag string) []string {
	words := []string{"alpha", "beta", "gamma", "delta", "abc", "bca", "cab", "foo bar", "foo/baz", "x-y", "Alpha", "ÁBC"}
	out := make([]string, n)
	for i := range out {
		out[i] = fmt.Sprintf("%s%d %s %s", tag, i+1, words[rng.Intn(len(words))], words[(i/3)%len(words)])
	}
	return out
}

var queryBits = []string{"1", "2", "5", "a", "b", "c", "al", "ph", "foo", "ba", "'a", "^1", "5$", "!2", "x", " ", "ab", "| 7", "'alpha'", "á", "delta", "gamma", "bca", "x-y"}

func (w *world) fresh(bin string, scratch string) ([]string, int, bool) {
	// the currently loaded input minus exclusions
	lines := w.lines
	if w.tail > 0 && len(lines) > w.tail {
		lines = lines[len(lines)-w.tail:]
	}
	var in []string
	base := len(w.lines) - len(lines)
	for i, l := range lines {
		if !w.excluded[base+i] {
			in = append(in, l)
		}
	}
	args := append([]string{"--filter", w.query}, w.extra...)
	if w.nth != "" {
		args = append(args, "--nth", w.nth)
	}
	if !w.sortOn {
		args = append(args, "--no-sort")
	}
	res := fzfrun.Proc(bin, args, []byte(joinLines(in)), 120*time.Second)
	if res.TimedOut || res.Code > 1 {
		return nil, 0, false
	}
	return splitLines(res.Stdout), len(lines), true
}

func joinLines(l []string) string {
	if len(l) == 0 {
		return ""
	}
	return strings.Join(l, "\n") + "\n"
}

func splitLines(b []byte) []string {
	if len(b) == 0 {
		return nil
	}
	return strings.Split(strings.TrimSuffix(string(b), "\n"), "\n")
}

type step struct {
	Post  string `json:"post"`
	Kind  string `json:"kind"`
	Paced bool   `json:"paced"`
}

func workerC08(r *vk.Run, w, n int, args []string) {
	rng := rand.New(rand.NewSource(r.Seed*7919 + int64(w)*131 + 5))
	bin, _ := fzfrun.Bin()
	sessions := 240
	if !r.Quick() {
		sessions = 6000
	}
	per := sessions/n + 1
	for i := 0; i < per; i++ {
		sessionC08(r, rng, bin, w, i)
	}
	hs := 1
	if !r.Quick() {
		hs = 10
	}
	for i := 0; i < hs; i++ {
		headerReloadSession(r, rng, w, i)
	}
}

// headerReloadSession: --header-lines with bursts of reloads and edits consumed back to back, the
// header event delayed by a failpoint: the reader (diverting header lines) and the coordinator
// (handling the reload and pending read events in one batch) meet; afterwards the list must be the
// reloaded input minus its header lines - and loading must finish at all.
func headerReloadSession(r *vk.Run, rng *rand.Rand, wkr, idx int) {
	in := filepath.Join(vk.Scratch(), fmt.Sprintf("c08-hdr-%d-%d-%d", os.Getpid(), wkr, idx))
	lines := genInput(rng, 300, "H")
	os.WriteFile(in, []byte(joinLines(lines)), 0o644)
	defer os.Remove(in)
	hn := 1 + rng.Intn(3)
	fzfArgs := []string{fmt.Sprintf("--header-lines=%d", hn)}
	s, err := tty.Start(tty.StartOpts{Args: fzfArgs, InputCmd: "cat " + shq(in), Cols: 80, Rows: 24, Points: "core.header=sleep(20)", Seed: r.Seed})
	if err != nil {
		r.Inconclusive("start: " + err.Error())
		if s != nil {
			s.Close()
		}
		return
	}
	defer s.Close()
	r.Count("sessions", 1)
	query := ""
	var hist []string
	for round := 0; round < 40; round++ {
		posts := []string{"execute-silent(sleep 0.05)", "reload(cat " + shq(in) + ")"}
		for k := 0; k < rng.Intn(3); k++ {
			a := []string{"put(1)", "backward-delete-char", "toggle-sort", "reload(cat " + shq(in) + ")"}[rng.Intn(4)]
			switch a {
			case "put(1)":
				query += "1"
			case "backward-delete-char":
				if query != "" {
					query = query[:len(query)-1]
				}
			}
			posts = append(posts, a)
		}
		for _, p := range posts {
			if code, err := s.Post(p); err != nil || code != 200 {
				r.Inconclusive(fmt.Sprintf("POST %q: %v %d", p, err, code))
				return
			}
			hist = append(hist, p)
		}
		st, ok := s.WaitQuiescent(30 * time.Second)
		if !ok {
			if _, exited := s.ExitCode(); exited {
				r.Violate(vk.Violation{Summary: "C08: fzf exited during the session: " + s.Stderr(), Witness: map[string]any{"history": hist}})
				return
			}
			fz := s.FzfPid()
			alive := 0
			for _, p := range s.SessionProcs() {
				if p.PPid == fz && !strings.Contains(p.Cmd, "<zombie>") {
					alive++
				}
			}
			lastWait := s.LastWait
			s.Signal(syscall.SIGQUIT)
			s.WaitExit(3 * time.Second)
			dump := s.Stderr()
			if alive == 0 && strings.Contains(lastWait, "reader settled=false") {
				key := ""
				if strings.Contains(dump, "(*ChunkList).Snapshot") && strings.Contains(dump, "(*EventBox).Set") && strings.Contains(dump, "sync.Mutex.Lock") {
					key = "F34-header-event-under-chunklist-lock"
				}
				r.Violate(vk.Violation{Key: key, Summary: fmt.Sprintf("C08: --header-lines=%d, reload burst %v: every command fzf started has exited but loading never finishes (%s)", hn, tailS(hist, 4), lastWait),
					Witness: map[string]any{"fzf_args": fzfArgs, "history_tail": tailS(hist, 12), "goroutine_dump": clipDump(dump)}})
				return
			}
			r.Inconclusive("header/reload session: no quiescence: " + lastWait)
			return
		}
		r.Eval(1)
		r.Count("quiescent_comparisons", 1)
		want := 0
		for _, l := range lines[hn:] {
			if query == "" || strings.Contains(l, query) {
				want++
			}
		}
		// (the query is made of the digit 1 only: a fuzzy match of "11" needs two ones anywhere)
		if query != "" {
			want = 0
			for _, l := range lines[hn:] {
				if strings.Count(l, "1") >= len(query) {
					want++
				}
			}
		}
		if st.Query != query || st.TotalCount != len(lines)-hn || st.MatchCount != want {
			r.Violate(vk.Violation{Summary: fmt.Sprintf("C08: --header-lines=%d after reload bursts: query %q total %d matches %d, expected query %q total %d matches %d", hn, st.Query, st.TotalCount, st.MatchCount, query, len(lines)-hn, want),
				Witness: map[string]any{"fzf_args": fzfArgs, "history_tail": tailS(hist, 12)}})
			return
		}
	}
	r.Distinct(fmt.Sprintf("header-reload hn%d", hn))
}

func sessionC08(r *vk.Run, rng *rand.Rand, bin string, wkr, idx int) {
	size := []int{50, 100, 101, 350, 5000, 5000, 20000}[rng.Intn(7)]
	if !r.Quick() && rng.Intn(20) == 0 {
		size = 120000
	}
	wd := &world{excluded: map[int]bool{}, sortOn: true}
	wd.lines = genInput(rng, size, "L")
	var fzfArgs []string
	if rng.Intn(5) == 0 {
		wd.tail = []int{30, 100, 250}[rng.Intn(3)]
		fzfArgs = append(fzfArgs, fmt.Sprintf("--tail=%d", wd.tail))
	}
	if rng.Intn(5) == 0 {
		wd.header = 1 + rng.Intn(3)
		fzfArgs = append(fzfArgs, fmt.Sprintf("--header-lines=%d", wd.header))
	}
	if rng.Intn(4) == 0 {
		wd.sortOn = false
		fzfArgs = append(fzfArgs, "--no-sort")
	}
	switch rng.Intn(8) {
	case 0, 1:
		wd.extra = []string{"--exact"}
	case 2:
		wd.extra = []string{"--algo=v1"}
	case 3:
		wd.extra = []string{"-i"}
	case 4:
		wd.extra = []string{"--literal", "--scheme=path"}
	}
	fzfArgs = append(fzfArgs, wd.extra...)
	full := append([]string{}, wd.lines...) // the stream, including header records
	if wd.header > 0 {
		wd.lines = wd.lines[wd.header:]
	}
	points := []string{"", "", "scan.chunk=20.0%:sleep(2)", "matcher.publish=sleep(15)", "term.loop_end=sleep(10)", "matcher.request=sleep(10),scan.chunk=10.0%:sleep(3)", "core.header=sleep(15)"}[rng.Intn(7)]
	slow := rng.Intn(4) == 0 && size <= 5000
	o := tty.StartOpts{Args: fzfArgs, Cols: 100, Rows: 30, Points: points, Seed: r.Seed}
	scr := vk.Scratch()
	inFile := filepath.Join(scr, fmt.Sprintf("c08-in-%d-%d-%d", os.Getpid(), wkr, idx))
	os.WriteFile(inFile, []byte(joinLines(full)), 0o644)
	defer os.Remove(inFile)
	altFile := inFile + ".alt"
	defer os.Remove(altFile)
	if slow {
		// a producer slower than the typing: bursts with pauses
		o.InputCmd = fmt.Sprintf("awk '{print} NR%%%d==0 {system(\"sleep 0.03\")}' %s", 1+size/12, shq(inFile))
	} else {
		o.InputCmd = "cat " + shq(inFile)
	}
	s, err := tty.Start(o)
	if err != nil {
		r.Inconclusive("start: " + err.Error())
		if s != nil {
			s.Close()
		}
		return
	}
	defer s.Close()
	r.Count("sessions", 1)
	var hist []step
	kinds := map[string]bool{}
	nsteps := 5 + rng.Intn(14)
	bad := false
	forceNext := ""
	var scopeQ []string
	for k := 0; k < nsteps && !bad; k++ {
		// a burst of 1..4 batches; either paced (wait for each) or queued behind a busy UI loop
		burst := 1
		queued := rng.Intn(4) == 0
		if queued {
			burst = 2 + rng.Intn(3)
			if code, err := s.Post("execute-silent(sleep 0.15)"); err != nil || code != 200 {
				r.Inconclusive(fmt.Sprintf("POST failed: %v %d", err, code))
				return
			}
			hist = append(hist, step{"execute-silent(sleep 0.15)", "busy", false})
		}
		// scripted bursts aimed at two windows of the coordinator: (a) an exclusion that arrives while a
		// reload has been requested but has not delivered anything yet belongs to the old input and must
		// not hide a line of the new one; (b) an nth change while a search is in flight, followed by
		// queries that narrow and widen again (workers of the cancelled search and the chunk cache)
		var script []string
		if len(scopeQ) == 0 && size >= 350 && rng.Intn(25) == 0 {
			ws := []string{"delta", "gamma", "bca", "x-y", "cab", "beta", "alpha"}
			w1, w2 := ws[rng.Intn(len(ws))], ws[rng.Intn(len(ws))]
			scopeQ = []string{w1, w1 + " '" + w2 + "'", w1, w1 + " !" + w2, "'" + w2 + "' " + w1, w1 + " '" + w2, w1}
		}
		if !queued && rng.Intn(14) == 0 {
			if st0, err := s.Get(1); err == nil && st0.Current != nil {
				n := []int{40, 101, 777}[rng.Intn(3)]
				alt := genInput(rng, n, "S")
				os.WriteFile(altFile, []byte(joinLines(alt)), 0o644)
				t0 := time.Now()
				c1, e1 := s.Post("reload(sleep 1.5; cat " + shq(altFile) + ")")
				c2, e2 := s.Post("exclude")
				okc := s.WaitConsumed(10 * time.Second)
				if e1 != nil || e2 != nil || c1 != 200 || c2 != 200 || !okc || time.Since(t0) > 900*time.Millisecond {
					r.Inconclusive("scripted reload+exclude could not be delivered inside the reload's silent phase")
					return
				}
				hist = append(hist, step{"reload(sleep 1.5; cat alt)", "slow-reload", true}, step{"exclude", "exclude-during-reload", true})
				kinds["exclude-during-reload"] = true
				wd.lines = alt
				if wd.header > 0 {
					wd.lines = alt[min(wd.header, len(alt)):]
				}
				wd.excluded = map[int]bool{}
				burst = 0
			}
		} else if queued && size >= 5000 && rng.Intn(3) == 0 {
			k := []string{"1", "2", "3"}[rng.Intn(3)]
			c := queryBits[rng.Intn(6)]
			script = []string{"put(x)", "change-nth(" + k + ")", "put(" + c + ")", "toggle-sort"}
			wd.query += "x" + c
			wd.nth = k
			wd.sortOn = !wd.sortOn
			kinds["nth-race"] = true
			burst = 0
			for _, p := range script {
				if code, err := s.Post(p); err != nil || code != 200 {
					r.Inconclusive(fmt.Sprintf("POST %q failed: %v %d", p, err, code))
					return
				}
				hist = append(hist, step{p, "nth-race", false})
			}
			forceNext = "backward-delete-char"
		}
		for b := 0; b < burst && !bad; b++ {
			var post, kind string
			var ok bool
			if len(scopeQ) > 0 && !queued && b == 0 {
				// scripted cache-scope sequence: plain term, the same term refined by a term of another
				// kind, plain again, refined otherwise (each searched and compared on its own)
				wd.query = scopeQ[0]
				post, kind, ok = "change-query("+scopeQ[0]+")", "cache-scope", true
				scopeQ = scopeQ[1:]
			} else if forceNext != "" && !queued && b == 0 {
				// the scripted burst of the previous step is followed by a widening edit
				post, kind, ok = forceNext, "delete", true
				if len(wd.query) > 0 {
					rs := []rune(wd.query)
					wd.query = string(rs[:len(rs)-1])
				}
				forceNext = ""
			} else {
				post, kind, ok = nextAction(rng, wd, s, altFile, queued, b == 0)
			}
			if !ok {
				continue
			}
			kinds[kind] = true
			code, err := s.Post(post)
			hist = append(hist, step{post, kind, !queued})
			if err != nil || code != 200 {
				r.Violate(vk.Violation{Summary: fmt.Sprintf("C08: POST %q answered %d %v", post, code, err), Witness: map[string]any{"history": hist}})
				bad = true
			}
		}
		if bad {
			break
		}
		st, ok := s.WaitQuiescent(45 * time.Second)
		if !ok && strings.HasPrefix(s.LastWait, "state says reading=true") {
			// every batch was consumed and the last search was displayed, yet the interface still says
			// "loading": nothing more will happen, so this is the final state - compare it
			if st2, err := s.Get(1000000); err == nil {
				st, ok = st2, true
				r.Count("stuck_loading_states", 1)
			}
		}
		if !ok {
			if _, exited := s.ExitCode(); exited {
				r.Violate(vk.Violation{Summary: "C08: fzf exited during the session: " + s.Stderr(), Witness: map[string]any{"history": hist, "stderr": s.Stderr()}})
			} else {
				lastWait := s.LastWait
				// loading that never finishes although the producer is gone: every command fzf started has
				// exited (twice, a second apart) and for the whole watchdog nothing but the spinner was drawn
				gone := func() bool {
					fz := s.FzfPid()
					for _, p := range s.SessionProcs() {
						if p.PPid == fz && !strings.Contains(p.Cmd, "<zombie>") {
							return false
						}
					}
					return fz != 0
				}
				wedged := strings.Contains(lastWait, "reader settled=false") && gone()
				if wedged {
					n1 := len(s.Trace())
					time.Sleep(time.Second)
					wedged = gone()
					for _, e := range s.Trace()[n1:] {
						if e.Kind != "term.render" {
							wedged = false
						}
					}
				}
				procs := fmt.Sprintf("%+v", s.SessionProcs())
				s.Signal(syscall.SIGQUIT)
				s.WaitExit(3 * time.Second)
				stuck := map[string]any{"history": hist, "fzf_args": fzfArgs, "failpoints": points, "trace": traceLines(s, 200), "processes": procs, "goroutine_dump": clipDump(s.Stderr())}
				if wedged {
					key := ""
					if d := s.Stderr(); strings.Contains(d, "(*ChunkList).Snapshot") && strings.Contains(d, "(*EventBox).Set") && strings.Contains(d, "sync.Mutex.Lock") {
						key = "F34-header-event-under-chunklist-lock"
					}
					r.Violate(vk.Violation{Key: key, Summary: fmt.Sprintf("C08: the input ended (every command fzf started has exited) but loading never finishes: 45 s after %q the interface still waits for its reader (%s)", hist[len(hist)-1].Post, lastWait), Witness: stuck})
					return
				}
				r.Inconclusive(fmt.Sprintf("no quiescence within the watchdog after %q: %s (trace tail: %s)", hist[len(hist)-1].Post, lastWait, traceTail(s)))
				// keep a goroutine dump of the stuck process for the evidence
				r.Extra("stuck_session", stuck)
			}
			return
		}
		r.Eval(1)
		r.Count("quiescent_comparisons", 1)
		wit := func() map[string]any {
			return map[string]any{"fzf_args": fzfArgs, "input_lines": size, "slow_producer": slow, "failpoints": points, "history": hist,
				"state": map[string]any{"query": st.Query, "matchCount": st.MatchCount, "totalCount": st.TotalCount, "sort": st.Sort, "matches_head": headItems(st.Matches, 8)},
				"model": map[string]any{"query": wd.query, "nth": wd.nth, "sort": wd.sortOn, "excluded": len(wd.excluded), "loaded_lines": len(wd.lines)}}
		}
		if st.Query != wd.query {
			r.Violate(vk.Violation{Summary: fmt.Sprintf("C08: query is %q, the posted actions give %q (last batch %q)", st.Query, wd.query, hist[len(hist)-1].Post), Witness: wit()})
			return
		}
		want, total, okf := wd.fresh(bin, scr)
		if !okf {
			r.Inconclusive("fresh filter run failed")
			return
		}
		var got []string
		for _, m := range st.Matches {
			got = append(got, m.Text)
		}
		if st.MatchCount != len(want) || !eqs(got, want) {
			key := classifyC08(hist)
			w := wit()
			w["fresh_filter_count"] = len(want)
			w["fresh_filter_head"] = head(want, 8)
			w["first_difference"] = firstDiff(got, want)
			w["trace_tail"] = traceLines(s, 120)
			if r.Counter("stuck_loading_states") > 0 {
				// the interface never left the loading state: take a goroutine dump for the witness
				s.Signal(syscall.SIGQUIT)
				s.WaitExit(3 * time.Second)
				w["goroutine_dump"] = clipDump(s.Stderr())
			}
			r.Violate(vk.Violation{Key: key, Summary: fmt.Sprintf("C08: after %q the list shows %d matches for query %q, a fresh filter of the loaded input gives %d (first difference at %d); history kinds %v",
				hist[len(hist)-1].Post, st.MatchCount, st.Query, len(want), firstDiff(got, want), keysOf(kinds)), Witness: w})
			return
		}
		if st.TotalCount != total {
			w := wit()
			w["expected_total"] = total
			r.Violate(vk.Violation{Summary: fmt.Sprintf("C08: totalCount %d, %d records are loaded", st.TotalCount, total), Witness: w})
			return
		}
		// item ordinals: position in the stream (after the header records)
		for _, m := range st.Matches {
			if m.Index < 0 || m.Index >= len(wd.lines) || wd.lines[m.Index] != m.Text {
				w := wit()
				w["item"] = m
				r.Violate(vk.Violation{Summary: fmt.Sprintf("C08/C06: item %q carries index %d, which is not its position in the stream", m.Text, m.Index), Witness: w})
				return
			}
		}
	}
	pace := "paced"
	for _, h := range hist {
		if h.Kind == "busy" {
			pace = "queued"
		}
	}
	r.Distinct(fmt.Sprintf("%v n%d slow%v %s fp[%s] tail%v hdr%v", keysOf(kinds), size, slow, pace, points, wd.tail > 0, wd.header > 0) + fmt.Sprint(wd.extra))
	if idx == 0 {
		r.Sample(map[string]any{"fzf_args": fzfArgs, "input_lines": size, "history": hist, "final_query": wd.query, "trace_events": len(s.Trace())})
	}
}

func classifyC08(hist []step) string { return "" }

func nextAction(rng *rand.Rand, wd *world, s *tty.Session, altFile string, queued bool, first bool) (string, string, bool) {
	switch c := rng.Intn(20); {
	case c < 6:
		b := queryBits[rng.Intn(len(queryBits))]
		if strings.ContainsAny(b, "()") {
			return "", "", false
		}
		wd.query += b
		return "put(" + b + ")", "put", true
	case c < 9:
		if len(wd.query) > 0 {
			rs := []rune(wd.query)
			wd.query = string(rs[:len(rs)-1])
		}
		return "backward-delete-char", "delete", true
	case c < 10:
		wd.query = ""
		return "clear-query", "clear", true
	case c < 12:
		q := queryBits[rng.Intn(len(queryBits))] + queryBits[rng.Intn(len(queryBits))]
		if rng.Intn(2) == 0 {
			// a query from the full grammar (AND / OR groups, all term kinds, negation); cache scope
			// must never be shared between different term kinds over the same text
			g := &filterchk.Gen{R: rng}
			q, _ = g.QueryFor(wd.lines[:min(len(wd.lines), 50)])
			if strings.ContainsAny(q, "()\\") {
				return "", "", false
			}
			wd.query = q
			return "change-query(" + q + ")", "grammar-query", true
		}
		wd.query = q
		return "change-query(" + q + ")", "change-query", true
	case c < 13 && rng.Intn(2) == 0:
		// refine the query by a further term of another kind (the plain part stays, so a result cached
		// for it must not answer the refined query, nor the other way round after a rubout)
		if wd.query == "" || strings.HasSuffix(wd.query, " ") {
			return "", "", false
		}
		t := []string{"'alpha'", "'foo'", "!beta", "!ba", "^L", "a$", "'ba", "| x", "'Alpha'", "!'bar'", "'gamma'", "'delta'", "'cab'", "'x-y'"}[rng.Intn(14)]
		wd.query += " " + t
		return "put( " + t + ")", "refine", true
	case c < 13:
		// two edits in one batch that leave the length unchanged (in-place rewrite of the query buffer)
		b := queryBits[rng.Intn(6)]
		if len(wd.query) == 0 {
			return "", "", false
		}
		rs := []rune(wd.query)
		wd.query = string(rs[:len(rs)-1]) + b
		return "backward-delete-char+put(" + b + ")", "delete+put", true
	case c < 14:
		wd.query = rubout(wd.query)
		return "unix-word-rubout", "rubout", true
	case c < 15:
		wd.sortOn = !wd.sortOn
		return "toggle-sort", "toggle-sort", true
	case c < 17:
		// exclude the current item (needs a settled list: when paced, or as the first action of a queued
		// burst - the list cannot change while the interface is busy with the execute-silent in front of it)
		if queued && !first {
			return "", "", false
		}
		st, err := s.Get(1)
		if err != nil || st.Current == nil {
			return "", "", false
		}
		wd.excluded[st.Current.Index] = true
		return "exclude", "exclude", true
	case c < 18:
		nth := []string{"1", "2", "2..", "..2", "3", ".."}[rng.Intn(6)]
		wd.nth = nth
		if nth == ".." {
			wd.nth = ""
		}
		return "change-nth(" + nth + ")", "change-nth", true
	default:
		// reload with another input; exclusions are dropped, tail/header apply again
		n := []int{0, 1, 40, 100, 101, 777}[rng.Intn(6)]
		alt := genInput(rng, n, "R")
		os.WriteFile(altFile, []byte(joinLines(alt)), 0o644)
		act := "reload"
		if rng.Intn(3) == 0 {
			act = "reload-sync"
		}
		wd.lines = alt
		if wd.header > 0 {
			if len(alt) > wd.header {
				wd.lines = alt[wd.header:]
			} else {
				wd.lines = nil
			}
		}
		wd.excluded = map[int]bool{}
		return act + "(cat " + shq(altFile) + ")", act, true
	}
}

// rubout: unix-word-rubout at the end of the line (delete the trailing word and the blanks before the cursor)
func rubout(q string) string {
	rs := []rune(q)
	i := len(rs)
	for i > 0 && rs[i-1] == ' ' {
		i--
	}
	for i > 0 && rs[i-1] != ' ' {
		i--
	}
	return string(rs[:i])
}

func shq(s string) string { return "'" + strings.ReplaceAll(s, "'", `'\''`) + "'" }

func eqs(a, b []string) bool {
	if len(a) != len(b) {
		return false
	}
	for i := range a {
		if a[i] != b[i] {
			return false
		}
	}
	return true
}

func firstDiff(a, b []string) int {
	for i := 0; i < len(a) && i < len(b); i++ {
		if a[i] != b[i] {
			return i
		}
	}
	if len(a) != len(b) {
		if len(a) < len(b) {
			return len(a)
		}
		return len(b)
	}
	return -1
}

func head(a []string, n int) []string {
	if len(a) > n {
		return a[:n]
	}
	return a
}

func headItems(a []tty.Item, n int) []tty.Item {
	if len(a) > n {
		return a[:n]
	}
	return a
}

func keysOf(m map[string]bool) []string {
	var out []string
	for k := range m {
		out = append(out, k)
	}
	for i := 1; i < len(out); i++ {
		for j := i; j > 0 && out[j-1] > out[j]; j-- {
			out[j-1], out[j] = out[j], out[j-1]
		}
	}
	return out
}

func traceTail(s *tty.Session) string {
	tr := s.Trace()
	var sb strings.Builder
	from := len(tr) - 12
	if from < 0 {
		from = 0
	}
	for _, e := range tr[from:] {
		fmt.Fprintf(&sb, "%s(%d,%d,%s) ", e.Kind, e.A, e.B, e.S)
	}
	return sb.String()
}

func min(a, b int) int {
	if a < b {
		return a
	}
	return b
}

func traceLines(s *tty.Session, n int) []string {
	var out []string
	for _, e := range s.Trace() {
		if e.Kind == "scan.chunk" || e.Kind == "scan.count" {
			continue
		}
		out = append(out, fmt.Sprintf("%d %s(%d,%d,%s)", e.TUs/1000, e.Kind, e.A, e.B, e.S))
	}
	if len(out) > n {
		out = out[len(out)-n:]
	}
	return out
}

func clipDump(d string) string {
	if len(d) > 30000 {
		return d[:30000]
	}
	return d
}

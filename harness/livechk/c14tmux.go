package livechk

import (
	"fmt"
	"math/rand"
	"os"
	"path/filepath"
	"strings"
	"time"

	"verif/harness/tty"
	"verif/harness/vk"
)

// The --tmux (proxy) path of C14: fzf re-launches itself through `tmux display-popup` and relays
// input, output and the exit status through temporary files. A stand-in `tmux` first on PATH runs
// the generated script in the pane itself, so the inner fzf has the terminal. Whatever ends the
// inner session (accept, abort, become), nothing may stay behind in $TMPDIR, no crash text may
// appear and the terminal settings must be what they were.

const fakeTmuxC14 = `#!/bin/sh
# stand-in for tmux: run the command handed to display-popup (last two words: <sh> <script>)
# (a popup has a terminal of its own: the script gets the pane's terminal as standard input)
for a in "$@"; do prev2="$prev"; prev="$a"; done
exec "$prev2" "$prev" < /dev/tty
`

func tmuxProxySession(r *vk.Run, rng *rand.Rand, idx int) {
	dir := filepath.Join(vk.Scratch(), fmt.Sprintf("c14tmux-%d-%d", os.Getpid(), idx))
	os.MkdirAll(filepath.Join(dir, "bin"), 0o755)
	defer os.RemoveAll(dir)
	os.WriteFile(filepath.Join(dir, "bin", "tmux"), []byte(fakeTmuxC14), 0o755)
	ending := []string{"accept", "abort", "become", "become"}[rng.Intn(4)]
	fzfArgs := []string{[]string{"--tmux", "--tmux=center,60%", "--tmux=bottom,40%"}[rng.Intn(3)], "--no-mouse", "--bind", "ctrl-b:become(true)"}
	piped := rng.Intn(2) == 0
	o := tty.StartOpts{Args: fzfArgs, NoListen: true, Cols: 80, Rows: 24,
		Env: []string{"TMUX=/tmp/verif-fake,1,0", "TMUX_PANE=%0", "PATH=" + filepath.Join(dir, "bin") + ":" + os.Getenv("PATH")}}
	if piped {
		o.Input = []byte("one\ntwo\nthree\n")
	} else {
		o.TTYStdin = true
		o.Env = append(o.Env, "FZF_DEFAULT_COMMAND=echo one; echo two")
	}
	s, err := tty.Start(o)
	if err != nil {
		r.Inconclusive("tmux proxy start: " + err.Error())
		if s != nil {
			s.Close()
		}
		return
	}
	defer s.Close()
	// the inner fzf is up when its list is on the screen
	up := false
	for poll := 0; poll < 300 && !up; poll++ {
		scr, _ := s.Capture()
		up = strings.Contains(strings.Join(scr, "\n"), "one")
		if _, exited := s.ExitCode(); exited {
			break
		}
		time.Sleep(20 * time.Millisecond)
	}
	wit := map[string]any{"fzf_args": fzfArgs, "ending": ending, "piped_input": piped}
	if !up {
		wit["stderr"] = clipDump(s.Stderr())
		if crashRe.MatchString(s.Stderr()) {
			r.Violate(vk.Violation{Summary: "C14: fzf --tmux crashed at start-up: " + firstLines(s.Stderr(), 3), Witness: wit})
			return
		}
		r.Inconclusive("tmux proxy: the inner fzf did not come up: " + firstLines(s.Stderr(), 2))
		return
	}
	switch ending {
	case "accept":
		s.SendKeys("Enter")
	case "abort":
		s.SendKeys("Escape")
	default:
		s.SendKeys("C-b")
	}
	if _, exited := s.WaitExit(20 * time.Second); !exited {
		r.Inconclusive("tmux proxy: session did not end after " + ending)
		return
	}
	r.Eval(1)
	r.Count("tmux_proxy_sessions", 1)
	r.Distinct(fmt.Sprintf("tmux-proxy %s piped%v %s", fzfArgs[0], piped, ending))
	if crashRe.MatchString(s.Stderr()) {
		wit["stderr"] = clipDump(s.Stderr())
		r.Violate(vk.Violation{Summary: fmt.Sprintf("C14: fzf --tmux crashed (%s): %s", ending, firstLines(s.Stderr(), 3)), Witness: wit})
		return
	}
	if tmp := s.TmpFiles(); len(tmp) > 0 {
		wit["tmp_files"] = tmp
		r.Violate(vk.Violation{Summary: fmt.Sprintf("C14: temp files left in $TMPDIR after a --tmux session ended by %s: %v", ending, tmp), Witness: wit})
		return
	}
	if b, a := s.SttyBefore(), s.SttyAfter(); b != "" && a != "" && a != b {
		r.Violate(vk.Violation{Summary: fmt.Sprintf("C14: terminal settings differ after a --tmux session (%s)", ending), Witness: wit})
	}
}

#!/bin/bash
# seedmatrix.sh: run every kept seeded change against the check of its own property (quick tier)
# and against the extra checks listed below (SEED_FILTER=<regex on the id> restricts the run); results are recorded in seeded/<id>/meta.json.
V="${VERIF_HOME:-/verif}"; cd "$V"
declare -A extra=( [C01-1]=C08 [C04-2]=C08 [C05-3]=C04 [C06-2]=C08 [C06-3]=C08 [C12-1]=C09 [C07-2]=C09 [C13-3]=C06 [C14-1]=C20 [C11-1]=C07 [C13-4]=C08 [C13-6]=C08 [C20-6]=C14 [C08-6]=C06 [C18-6]=C17 [C12-6]=C06 [C10-5]=C07 [C10-6]=C12 [C07-4]=C06 [C07-7]=C09 [C16-10]=C17 [C04-7]=C08 [C10-7]=C07 [C01-7]=C08 )
for d in seeded/*/; do
  id=$(basename "$d"); prop=${id%%-*}
  [ -f "$d/patch.diff" ] || continue
  if [ -n "${SEED_FILTER:-}" ] && ! echo "$id" | grep -Eq "$SEED_FILTER"; then continue; fi
  scripts/seedrun.sh "$V/$d" "$prop" quick | cut -c1-160
  if [ -n "${extra[$id]}" ]; then scripts/seedrun.sh "$V/$d" "${extra[$id]}" quick | cut -c1-160; fi
done

//go:build !race

package matchchk

func raceEnabledNote() string { return "NOT built with -race: race clause not decided by this run" }

const raceEnabled = false

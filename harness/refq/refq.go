// Package refq is an independent reference evaluator of fzf's documented
// search syntax (README "Search syntax", man page "EXTENDED SEARCH MODE"),
// written from the documentation, not from pattern.go. It shares no code with
// fzf except the accent table (algo.NormalizeRunes), whose content is trusted.
package refq

import (
	"strings"
	"unicode"

	"github.com/junegunn/fzf/src/algo"
)

type Kind int

const (
	Fuzzy Kind = iota
	Exact
	Boundary
	Prefix
	Suffix
	Equal
)

var KindNames = []string{"fuzzy", "exact", "boundary", "prefix", "suffix", "equal"}

type Term struct {
	Kind Kind
	Inv  bool
	Body []rune
	CS   bool // case-sensitive
	Norm bool // accent-normalise the line
}

type Opts struct {
	Extended bool   // default true; --no-extended / +x turns it off
	Exact    bool   // --exact
	Case     string // "smart" (default), "ignore" (-i), "respect" (+i)
	Literal  bool   // --literal: no accent normalisation
}

// Query is an AND of OR-groups.
type Query [][]Term

func hasUpper(s string) bool {
	for _, r := range s {
		if unicode.ToLower(r) != r {
			return true
		}
	}
	return false
}

func lower(s string) string {
	return strings.Map(unicode.ToLower, s)
}

func accentFree(s string) bool {
	r := []rune(s)
	n := algo.NormalizeRunes(append([]rune(nil), r...))
	return string(n) == s
}

func caseSensitive(o Opts, text string) bool {
	switch o.Case {
	case "respect":
		return true
	case "ignore":
		return false
	}
	return hasUpper(text)
}

// splitTerms splits on unescaped spaces; "\ " is a literal space.
func splitTerms(q string) []string {
	var out []string
	var cur []rune
	rs := []rune(q)
	flush := func() {
		if len(cur) > 0 {
			out = append(out, string(cur))
			cur = nil
		}
	}
	for i := 0; i < len(rs); i++ {
		if rs[i] == '\\' && i+1 < len(rs) && rs[i+1] == ' ' {
			cur = append(cur, ' ')
			i++
			continue
		}
		if rs[i] == ' ' {
			flush()
			continue
		}
		cur = append(cur, rs[i])
	}
	flush()
	return out
}

// Parse reads the query under the given options.
func Parse(q string, o Opts) Query {
	if !o.Extended {
		if q == "" {
			return nil
		}
		cs := caseSensitive(o, q)
		norm := !o.Literal && accentFree(lower(q))
		body := q
		if !cs {
			body = lower(q)
		}
		k := Fuzzy
		if o.Exact {
			k = Exact
		}
		return Query{{Term{Kind: k, Body: []rune(body), CS: cs, Norm: norm}}}
	}
	var query Query
	var group []Term
	afterBar := false
	for _, tok := range splitTerms(q) {
		if tok == "|" && len(group) > 0 && !afterBar {
			afterBar = true
			continue
		}
		t, ok := parseTerm(tok, o)
		if !ok {
			afterBar = false
			continue
		}
		if afterBar || len(group) == 0 {
			group = append(group, t)
		} else {
			query = append(query, group)
			group = []Term{t}
		}
		afterBar = false
	}
	if len(group) > 0 {
		query = append(query, group)
	}
	return query
}

func parseTerm(tok string, o Opts) (Term, bool) {
	cs := caseSensitive(o, tok)
	norm := !o.Literal && accentFree(lower(tok))
	if !cs {
		tok = lower(tok)
	}
	t := Term{CS: cs, Norm: norm}
	if o.Exact {
		t.Kind = Exact
	}
	if strings.HasPrefix(tok, "!") {
		t.Inv = true
		t.Kind = Exact
		tok = tok[1:]
	}
	suffix := false
	if tok != "$" && strings.HasSuffix(tok, "$") {
		suffix = true
		t.Kind = Suffix
		tok = tok[:len(tok)-1]
	}
	switch {
	case len(tok) > 2 && strings.HasPrefix(tok, "'") && strings.HasSuffix(tok, "'"):
		t.Kind = Boundary
		tok = tok[1 : len(tok)-1]
	case strings.HasPrefix(tok, "'"):
		// quoting flips exactness; an inverse term is exact by default, so a quote makes it fuzzy
		if !o.Exact && !t.Inv {
			t.Kind = Exact
		} else {
			t.Kind = Fuzzy
		}
		tok = tok[1:]
	case strings.HasPrefix(tok, "^"):
		if suffix {
			t.Kind = Equal
		} else {
			t.Kind = Prefix
		}
		tok = tok[1:]
	}
	if tok == "" {
		return t, false
	}
	t.Body = []rune(tok)
	return t, true
}

// FoldLine applies the term's case / accent folding to a line.
func FoldLine(line []rune, t Term) []rune {
	out := make([]rune, len(line))
	for i, r := range line {
		if !t.CS {
			r = unicode.ToLower(r)
		}
		if t.Norm {
			r = algo.NormalizeRunes([]rune{r})[0]
		}
		out[i] = r
	}
	return out
}

func isWord(r rune) bool { return unicode.IsLetter(r) || unicode.IsNumber(r) }

// TermMatches: does the (positive form of the) term match the text?
func TermMatches(t Term, text []rune) bool {
	f := FoldLine(text, t)
	b := t.Body
	if t.Norm {
		b = algo.NormalizeRunes(append([]rune(nil), b...))
	}
	switch t.Kind {
	case Fuzzy:
		i := 0
		for _, r := range f {
			if i < len(b) && r == b[i] {
				i++
			}
		}
		return i == len(b)
	case Exact, Boundary:
		for s := 0; s+len(b) <= len(f); s++ {
			if eq(f[s:s+len(b)], b) {
				if t.Kind == Exact {
					return true
				}
				if (s == 0 || !isWord(text[s-1])) && (s+len(b) == len(f) || !isWord(text[s+len(b)])) {
					return true
				}
			}
		}
		return false
	}
	lead, trail := 0, 0
	for lead < len(text) && unicode.IsSpace(text[lead]) {
		lead++
	}
	for trail < len(text) && unicode.IsSpace(text[len(text)-1-trail]) {
		trail++
	}
	if unicode.IsSpace(b[0]) {
		lead = 0
	}
	if unicode.IsSpace(b[len(b)-1]) {
		trail = 0
	}
	switch t.Kind {
	case Prefix:
		return lead+len(b) <= len(f) && eq(f[lead:lead+len(b)], b)
	case Suffix:
		s := len(f) - trail - len(b)
		return s >= 0 && eq(f[s:s+len(b)], b)
	case Equal:
		return len(f)-lead-trail == len(b) && eq(f[lead:lead+len(b)], b)
	}
	return false
}

func eq(a, b []rune) bool {
	if len(a) != len(b) {
		return false
	}
	for i := range a {
		if a[i] != b[i] {
			return false
		}
	}
	return true
}

// Matches evaluates the query on a line; fields, when non-nil, are the
// --nth field texts (a term matches if it matches inside some field).
func (q Query) Matches(line string, fields []string) bool {
	texts := [][]rune{[]rune(line)}
	if fields != nil {
		texts = texts[:0]
		for _, f := range fields {
			texts = append(texts, []rune(f))
		}
	}
	for _, group := range q {
		sat := false
		for _, t := range group {
			m := false
			for _, tx := range texts {
				if TermMatches(t, tx) {
					m = true
					break
				}
			}
			if m != t.Inv {
				sat = true
				break
			}
		}
		if !sat {
			return false
		}
	}
	return true
}

// Sortable: results are ranked only if some term is positive.
func (q Query) Sortable() bool {
	for _, g := range q {
		for _, t := range g {
			if !t.Inv {
				return true
			}
		}
	}
	return false
}

package livechk

import (
	"bytes"
	"fmt"
	"math/rand"
	"regexp"
	"strings"
	"syscall"
	"time"

	"verif/harness/fzfrun"
	"verif/harness/tty"
	"verif/harness/vk"
)

func init() { vk.RegisterWorker("c14", workerC14) }

func MainC14(prop, tier string) int {
	r := vk.New("C14", tier)
	r.Rule = "interactive sessions in a private tmux server with option vectors drawn from a pool (layouts, borders of every window, margins/padding incl. %, --height forms, header / header-lines / header-first, info styles, wrap, gap, scrollbar, pointer/marker widths, preview positions/sizes with {f} templates, --no-input, --multi), hostile item lists (wide, combining, control and invalid bytes, 200 KB lines, empty input), window sizes from 1x1 to 200x60 with resizes mid-session, and histories mixing POSTed actions, raw key bytes (truncated CSI, bracketed paste, garbage), SGR mouse events and resizes; ended by Enter, Escape, ctrl-c, POST abort, SIGTERM, SIGINT or become(true) at arbitrary moments relative to running preview / execute-silent / reload commands. Monitors: crash text on stderr and exit status in {0,1,2,130,143}; DEC private mode ledger over the raw tty byte stream (1000/1002/1003/1006/1015/2004/1049 end reset, 25 and 7 end set); termios before == after; $TMPDIR empty; no process of the pane's session left; every batch consumed (progress). distinct = (option set, size class, ending, running-command situation) signatures. Directed signal sessions: after histories mixing commands that ran, commands that were refused (an item placeholder with nothing to expand), transforms and reloads, SIGINT / SIGTERM sent at trace-defined quiescence (no foreground command) must end the session with status 130 (143); a session that still answers GET after three deliveries is a violation"
	r.Assumptions = []string{"a hang is decided by two identical goroutine dumps of the UI loop 2 s apart after a 40 s watchdog; otherwise watchdog expiry is inconclusive", "tmux 3.3a is the terminal emulator (answers the cursor position query of --height mode)", "--no-clear legitimately stays on the alternate screen and is not generated", "SIGHUP (the terminal is gone) is not among the exit paths of the property; after become(true) only crash, termios and terminal modes are checked (the process was replaced)"}
	if _, err := fzfrun.Bin(); err != nil {
		r.Inconclusive(err.Error())
		r.Floor("sessions_ended", 1)
		return r.Finish()
	}
	r.Fanout("c14", vk.NumWorkers(), 90*time.Minute)
	r.Floor("sessions_ended", 40)
	r.Floor("mode_ledgers_checked", 40)
	return r.Finish()
}

var optPool = [][]string{
	{"--layout=reverse"}, {"--layout=reverse-list"}, {"--border"}, {"--border=sharp"}, {"--border=double"}, {"--border=left"}, {"--border=horizontal"},
	{"--list-border"}, {"--input-border"}, {"--header-border"}, {"--style=full"}, {"--style=minimal"},
	{"--margin=1"}, {"--margin=10%,5%"}, {"--margin=0,3,1,2"}, {"--padding=1"}, {"--padding=5%"}, {"--padding=2,4"},
	{"--height=10"}, {"--height=40%"}, {"--height=~8"}, {"--height=100%"}, {"--height=1"}, {"--height=3", "--min-height=1"},
	{"--header=HEADER LINE"}, {"--header=two\nlines"}, {"--header-lines=2"}, {"--header-first"}, {"--header-lines=1", "--header=H"},
	{"--info=inline"}, {"--info=hidden"}, {"--info=right"}, {"--info=inline-right"}, {"--no-separator"},
	{"--wrap"}, {"--gap"}, {"--gap=2"}, {"--no-scrollbar"}, {"--scrollbar=|x"}, {"--pointer=>>"}, {"--marker=**"}, {"--pointer="}, {"--no-unicode"},
	{"--multi"}, {"--multi=2"}, {"--cycle"}, {"--no-input"}, {"--no-mouse"}, {"--keep-right"}, {"--hscroll-off=1"}, {"--tabstop=1"}, {"--ellipsis=…"}, {"--highlight-line"},
	{"--preview=echo {}; cat {f} >/dev/null", "--preview-window=right,50%"}, {"--preview=cat {f}; exec sleep 30.5", "--preview-window=up,3"}, {"--preview=echo {q} {+}", "--preview-window=down,40%,wrap,border-top"},
	{"--preview=printf 'a\\nb\\nc\\n'", "--preview-window=left,20,border-none"}, {"--preview=echo x", "--preview-window=hidden"}, {"--preview=sleep 0.3; echo {n}", "--preview-window=right,1"}, {"--preview=echo {}; sleep 40.5; echo end", "--preview-window=down,3"},
	{"--preview=for i in 1 2 3 4 5 6 7 8; do echo line $i; sleep 0.15; done", "--preview-window=right,follow"}, {"--preview=for i in 1 2 3 4 5 6 7 8; do echo $i; sleep 0.2; done", "--preview-window=up,follow,<40(hidden)"}, {"--preview=seq 100; sleep 0.5; seq 100", "--preview-window=follow,wrap"},
	{"--prompt=プロンプト> "}, {"--ghost=type here"}, {"--track"}, {"--tac"}, {"--no-sort"}, {"--scheme=path"}, {"--ansi"}, {"--read0"}, {"--multi-line"}, {"--tail=5"}, {"--sync"},
	{"--bind=space:execute-silent(sleep 0.2)"}, {"--bind=f1:reload(sleep 0.4; seq 7)"}, {"--bind=start:reload(sleep 0.3; seq 20)"}, {"--bind=load:first"}, {"--bind=focus:transform-header(echo {n})"}, {"--bind=resize:refresh-preview"},
	{"--bind=ctrl-t:execute(true)"}, {"--bind=change:reload(sleep 0.2; echo {q}; cat {f})"}, {"--info-command=echo $FZF_POS/$FZF_TOTAL_COUNT"},
}

var hostileItems = []string{"plain", "", " ", "wide 日本語日本語日本語日本語日本語日本語日本語日本語 end", "combining é́́ à x⃝", "ctrl \x01\x02\x07\x08\x0b\x0c\x1b[31mred\x1b[0m \x7f", "invalid \xff\xfe\xc3(\xe2\x82 bytes", "tab\tseparated\tfields\t", "emoji 👩\u200d👩\u200d👧\u200d👦 🇰🇷 ☝🏽", "rtl שלום مرحبا", "zero\u200bwidth\u200djoiner\ufeff", "a/very/long/path/" + strings.Repeat("component/", 40) + "file.txt", strings.Repeat("x", 300), "\x1b]8;;http://example.com\x1b\\link\x1b]8;;\x1b\\", "back\\slash 'quote' \"dq\" $(touch pwn) `id`", "line with trailing spaces     ", "　fullwidth space", "ＦＵＬＬＷＩＤＴＨ"}

var simpleActs = strings.Fields(`backward-char backward-delete-char backward-kill-word backward-word beginning-of-line clear-screen clear-query clear-selection delete-char deselect deselect-all down end-of-line first forward-char forward-word half-page-down half-page-up jump-cancel kill-line kill-word last next-selected page-down page-up prev-selected preview-down preview-up preview-page-down preview-page-up preview-top preview-bottom preview-half-page-down refresh-preview replace-query select select-all toggle toggle-all toggle-down toggle-in toggle-out toggle-preview toggle-preview-wrap toggle-search toggle-sort toggle-track toggle-up toggle-wrap toggle-header toggle-multi-line unix-line-discard unix-word-rubout up yank offset-up offset-down offset-middle toggle-input hide-input show-input hide-header show-header enable-search disable-search exclude bell`)

var rawKeys = [][]byte{
	[]byte("a"), []byte("Z"), []byte(" "), []byte("\t"), []byte("\x1b[A"), []byte("\x1b[B"), []byte("\x1b[C"), []byte("\x1b[D"), []byte("\x1b[5~"), []byte("\x1b[6~"), []byte("\x1b[H"), []byte("\x1b[F"),
	[]byte("\x1b[1;5A"), []byte("\x1b[1;2B"), []byte("\x1b[1;10"), []byte("\x1b[1;"), []byte("\x1b["), []byte("\x1bO"), []byte("\x1b[200~pasted text\x1b[201~"), []byte("\x1b[200~unterminated"),
	[]byte("\x01"), []byte("\x05"), []byte("\x0b"), []byte("\x15"), []byte("\x17"), []byte("\x19"), []byte("\x7f"), []byte("\x08"), []byte("\x0c"), []byte("\x00"), []byte("\xff\xfe"), []byte("\xe6\x97"), []byte("日本"),
	[]byte("\x1b[<0;5;3M\x1b[<0;5;3m"), []byte("\x1b[<64;10;4M"), []byte("\x1b[<65;10;4M"), []byte("\x1b[<0;999;999M\x1b[<0;999;999m"), []byte("\x1b[<32;7;7M"), []byte("\x1b[<2;1;1M\x1b[<2;1;1m"), []byte("\x1b[<0;1;1M\x1b[<0;1;1m\x1b[<0;1;1M\x1b[<0;1;1m"), []byte("\x1b[<"), []byte("\x1b[<0;"), []byte("\x1b[M !!"), []byte("\x1b[I"), []byte("\x1b[O"), []byte("\x1b[1;1R"), []byte("\x1b[999;999R"),
	[]byte("\x1bf"), []byte("\x1bb"), []byte("\x1b\x7f"), []byte("\x1b\x1b"), []byte("\x1b[27;5;13~"), []byte("\x1b[13;2u"),
}

var modeRe = regexp.MustCompile("\x1b\\[\\?([0-9;]+)([hl])")

// modeLedger: last write wins per DEC private mode.
func modeLedger(raw []byte) map[string]byte {
	m := map[string]byte{}
	for _, g := range modeRe.FindAllSubmatch(raw, -1) {
		for _, n := range strings.Split(string(g[1]), ";") {
			m[n] = g[2][0]
		}
	}
	return m
}

var crashRe = regexp.MustCompile(`(?m)^(panic:|fatal error:|goroutine \d+ \[|runtime error:|unexpected fault address)`)

func workerC14(r *vk.Run, w, n int, args []string) {
	rng := rand.New(rand.NewSource(r.Seed*48271 + int64(w)*157 + 8))
	sessions := 480
	if !r.Quick() {
		sessions = 12000
	}
	per := sessions/n + 1
	for i := 0; i < per; i++ {
		sessionC14(r, rng, i)
		if i%10 == 3 {
			tmuxProxySession(r, rng, i)
		}
		if i%5 == 1 {
			signalSession(r, rng, i)
		}
	}
}

func sessionC14(r *vk.Run, rng *rand.Rand, idx int) {
	var fzfArgs []string
	var sig []string
	nopt := rng.Intn(6)
	used := map[int]bool{}
	for k := 0; k < nopt; k++ {
		j := rng.Intn(len(optPool))
		if used[j] {
			continue
		}
		used[j] = true
		fzfArgs = append(fzfArgs, optPool[j]...)
		sig = append(sig, optPool[j][0])
	}
	read0 := false
	for _, a := range fzfArgs {
		if a == "--read0" {
			read0 = true
		}
	}
	// items
	var items []string
	switch rng.Intn(6) {
	case 0: // empty input
	case 1:
		items = []string{strings.Repeat("long-line ", 20000)}
	default:
		n := 1 + rng.Intn(40)
		for k := 0; k < n; k++ {
			items = append(items, hostileItems[rng.Intn(len(hostileItems))])
		}
	}
	sep := "\n"
	if read0 {
		sep = "\x00"
	}
	input := strings.Join(items, sep)
	if len(items) > 0 {
		input += sep
	}
	cols, rows := 20+rng.Intn(120), 5+rng.Intn(40)
	switch rng.Intn(8) {
	case 0:
		cols, rows = 1+rng.Intn(6), 1+rng.Intn(4)
	case 1:
		cols, rows = 200, 60
	case 2:
		cols, rows = 2+rng.Intn(30), 1+rng.Intn(3)
	}
	s, err := tty.Start(tty.StartOpts{Args: fzfArgs, Input: []byte(input), Cols: cols, Rows: rows, Seed: r.Seed})
	wit := func(extra map[string]any) map[string]any {
		m := map[string]any{"fzf_args": fzfArgs, "items": len(items), "cols": cols, "rows": rows}
		for k, v := range extra {
			m[k] = v
		}
		return m
	}
	if s == nil {
		r.Inconclusive("start: " + fmt.Sprint(err))
		return
	}
	defer s.Close()
	var hist []string
	checkCrash := func(when string) bool {
		if crashRe.MatchString(s.Stderr()) {
			r.Violate(vk.Violation{Summary: fmt.Sprintf("C14: fzf crashed (%s) with options %q at %dx%d: %s", when, fzfArgs, cols, rows, firstLines(s.Stderr(), 3)),
				Witness: wit(map[string]any{"history": hist, "stderr": clipDump(s.Stderr())})})
			return true
		}
		return false
	}
	if err != nil {
		if checkCrash("at start-up") {
			return
		}
		if rc, ok := s.ExitCode(); ok && rc == 2 {
			// an option combination fzf rejects, or a window too small to start in: clean rejection
			if strings.TrimSpace(s.Stderr()) == "" {
				r.Violate(vk.Violation{Summary: fmt.Sprintf("C14: fzf %q exited 2 at start-up without a message", fzfArgs), Witness: wit(nil)})
			}
			r.Count("rejected_at_startup", 1)
			finalChecks(r, s, wit, hist, "startup-rejection", 2, true)
			return
		}
		r.Inconclusive("start: " + err.Error())
		return
	}
	steps := 5 + rng.Intn(20)
	situation := "idle"
	hasPreview := false
	for _, a := range fzfArgs {
		if strings.HasPrefix(a, "--preview=") {
			hasPreview = true
		}
	}
	hadRaw := false
	for k := 0; k < steps; k++ {
		switch c := rng.Intn(12); {
		case c < 4:
			a := simpleActs[rng.Intn(len(simpleActs))]
			if hasPreview && rng.Intn(3) == 0 {
				// a preview command is configured: hide / show / move the window and restart the command
				// while it is writing
				a = []string{"toggle-preview", "toggle-preview", "down+toggle-preview", "refresh-preview", "change-preview-window(hidden|)", "up", "toggle-preview+toggle-preview", "preview-bottom"}[rng.Intn(8)]
			} else if rng.Intn(6) == 0 {
				a = []string{"put(日本)", "change-query(x y)", "change-prompt(P> )", "change-header(h1\nh2\nh3)", "pos(-1)", "pos(999)", "change-preview-window(up|down|hidden|)", "change-preview(echo {}; cat {f})", "change-multi(1)", "change-nth(2)", "change-ghost(g)", "change-pointer(->)", "transform(echo up)", "transform-query(echo {q}x)", "reload(sleep 0.3; seq 30)", "reload-sync(seq 5)", "execute-silent(sleep 0.3)", "execute(true)", "change-border-label( L )", "change-list-label(LL)", "search(a)", "print(x)+up"}[rng.Intn(22)]
			}
			code, err := s.Post(a)
			hist = append(hist, "POST "+a)
			if err != nil {
				if _, exited := s.ExitCode(); exited {
					break
				}
				// the listener may be briefly busy; not a verdict
				continue
			}
			if code == 200 && (strings.Contains(a, "sleep") || strings.Contains(a, "reload")) {
				situation = "command-running"
			}
		case c < 8:
			b := rawKeys[rng.Intn(len(rawKeys))]
			s.SendRaw(b)
			hadRaw = true
			hist = append(hist, fmt.Sprintf("KEYS %q", b))
		case c < 10:
			cols, rows = 1+rng.Intn(140), 1+rng.Intn(45)
			if rng.Intn(3) == 0 {
				cols, rows = 1+rng.Intn(8), 1+rng.Intn(4)
			}
			s.Resize(cols, rows)
			hist = append(hist, fmt.Sprintf("RESIZE %dx%d", cols, rows))
		default:
			// a burst of mouse events at random coordinates
			var b []byte
			if rng.Intn(2) == 0 {
				// a drag: press (often in one of the right-most columns, where a scrollbar is or would be),
				// move with the button held - also out of the window - and release
				x := 1 + rng.Intn(cols+1)
				if rng.Intn(3) > 0 {
					x = cols - rng.Intn(7)
					if x < 1 {
						x = 1
					}
				}
				y := 1 + rng.Intn(rows+1)
				b = append(b, []byte(fmt.Sprintf("\x1b[<0;%d;%dM", x, y))...)
				for m := 0; m < 1+rng.Intn(5); m++ {
					switch rng.Intn(4) {
					case 0:
						y = []int{1, rows, rows - 1, rows + 1, 2}[rng.Intn(5)]
					case 1:
						y += rng.Intn(7) - 3
					case 2:
						x += rng.Intn(5) - 2
					default:
						x, y = 1+rng.Intn(cols+2), 1+rng.Intn(rows+2)
					}
					if x < 1 {
						x = 1
					}
					if y < 1 {
						y = 1
					}
					b = append(b, []byte(fmt.Sprintf("\x1b[<32;%d;%dM", x, y))...)
				}
				var rel []byte
				if rng.Intn(5) > 0 {
					rel = []byte(fmt.Sprintf("\x1b[<0;%d;%dm", x, y))
				}
				if hasPreview && rng.Intn(2) == 0 {
					// the window a drag started in disappears (or comes back) while the button is held
					cut := bytes.Index(b[1:], []byte("\x1b[<32;")) + 1
					if cut <= 0 {
						cut = len(b)
					}
					s.SendRaw(b[:cut])
					hist = append(hist, fmt.Sprintf("DRAG %q", b[:cut]))
					s.WaitConsumed(2 * time.Second)
					a := []string{"toggle-preview", "toggle-preview", "change-preview-window(hidden|)", "toggle-preview+toggle-preview"}[rng.Intn(4)]
					s.Post(a)
					hist = append(hist, "POST "+a)
					s.WaitConsumed(5 * time.Second)
					b = append(append([]byte{}, b[cut:]...), []byte(fmt.Sprintf("\x1b[<32;%d;%dM\x1b[<32;%d;%dM", x, y+2, x, y-3+rng.Intn(3)))...)
				}
				b = append(b, rel...)
				s.SendRaw(b)
				hadRaw = true
				hist = append(hist, fmt.Sprintf("DRAG %q", b))
				break
			}
			for m := 0; m < 1+rng.Intn(5); m++ {
				btn := []int{0, 0, 2, 64, 65, 32, 35}[rng.Intn(7)]
				x, y := 1+rng.Intn(cols+3), 1+rng.Intn(rows+3)
				b = append(b, []byte(fmt.Sprintf("\x1b[<%d;%d;%dM", btn, x, y))...)
				if btn < 3 {
					b = append(b, []byte(fmt.Sprintf("\x1b[<%d;%d;%dm", btn, x, y))...)
				}
			}
			s.SendRaw(b)
			hadRaw = true
			hist = append(hist, fmt.Sprintf("MOUSE %q", b))
		}
		if _, exited := s.ExitCode(); exited {
			break
		}
		if rng.Intn(3) == 0 {
			s.WaitConsumed(5 * time.Second)
		}
	}
	if checkCrash("during the session") {
		return
	}
	expCodes := map[int]bool{}
	ending := ""
	if rc, exited := s.ExitCode(); exited {
		// a key of the history ended it (Enter-like, ctrl-c, ctrl-d...): any documented status
		ending = "ended-by-history"
		expCodes = map[int]bool{0: true, 1: true, 130: true}
		_ = rc
	} else {
		// progress: everything posted so far has been consumed
		if !s.WaitConsumed(40 * time.Second) {
			if _, exited := s.ExitCode(); !exited {
				hangVerdict(r, s, wit, hist)
				return
			}
		}
		ending = []string{"enter", "esc", "ctrl-c", "abort", "sigterm", "sigint", "become", "accept-post"}[rng.Intn(8)]
		if hadRaw {
			// raw bytes may have ended the session a moment ago (an undecodable byte sequence counts as ESC):
			// a key typed after that would go to the shell behind fzf
			time.Sleep(150 * time.Millisecond)
			if _, exited := s.ExitCode(); exited || s.FzfPid() == 0 {
				ending = "ended-by-history"
				expCodes = map[int]bool{0: true, 1: true, 130: true}
			}
		}
		// optionally start a command right before leaving, so that the exit overlaps with it
		if ending != "ended-by-history" && rng.Intn(3) == 0 {
			s.Post([]string{"execute-silent(sleep 0.5)", "reload(sleep 1.5; seq 3)", "reload(sleep 30.7; seq 3)", "reload(sleep 30.7 | cat)", "refresh-preview", "change-preview(cat {f}; exec sleep 20.5)+refresh-preview", "change-preview(cat {f}; sleep 20.7; echo end)+refresh-preview"}[rng.Intn(7)])
			situation = "command-running"
			hist = append(hist, "POST <command before exit>")
		}
		switch ending {
		case "enter":
			s.SendKeys("Enter")
			// (a truncated escape sequence typed earlier turns the next key into an ESC-prefixed one: abort)
			expCodes = map[int]bool{0: true, 1: true, 130: true}
		case "accept-post":
			s.Post("accept")
			expCodes = map[int]bool{0: true, 1: true}
			if hadRaw {
				expCodes[130] = true // a pending truncated escape sequence may time out into ESC first
			}
		case "esc":
			s.SendKeys("Escape")
			expCodes = map[int]bool{130: true}
		case "ctrl-c":
			s.SendKeys("C-c")
			expCodes = map[int]bool{130: true}
		case "abort":
			s.Post("abort")
			expCodes = map[int]bool{130: true}
		case "sigterm":
			s.Signal(syscall.SIGTERM)
			expCodes = map[int]bool{130: true, 143: true}
		case "sigint":
			s.Signal(syscall.SIGINT)
			expCodes = map[int]bool{130: true}
		case "become":
			s.Post("become(true)")
			expCodes = map[int]bool{0: true, 1: true, 130: true} // with an empty list become may be refused; the fallback below ends the session
		}
		hist = append(hist, "END "+ending)
		if _, exited := s.WaitExit(8 * time.Second); !exited {
			// --no-input / disabled search may swallow Enter; some endings are no-ops in some states: fall back to abort
			s.Post("abort")
			if _, exited := s.WaitExit(8 * time.Second); !exited {
				s.Signal(syscall.SIGTERM)
				if _, exited := s.WaitExit(20 * time.Second); !exited {
					hangVerdict(r, s, wit, hist)
					return
				}
			}
			ending += "+fallback"
			expCodes[130], expCodes[143] = true, true
		}
	}
	if hadRaw {
		// keys and mouse events of the history (double click = accept, ESC-prefixed garbage = abort) may
		// end the session at the same moment as the chosen ending
		expCodes[0], expCodes[1], expCodes[130] = true, true, true
	}
	rc, _ := s.ExitCode()
	if checkCrash("at exit") {
		return
	}
	r.Eval(1)
	r.Count("sessions_ended", 1)
	szc := "normal"
	if cols < 10 || rows < 4 {
		szc = "tiny"
	} else if cols >= 150 {
		szc = "huge"
	}
	r.Distinct(fmt.Sprintf("%v %s end=%s %s", sig, szc, ending, situation))
	if !expCodes[rc] {
		r.Violate(vk.Violation{Summary: fmt.Sprintf("C14: exit status %d after ending %q (options %q)", rc, ending, fzfArgs), Witness: wit(map[string]any{"history": hist, "stderr": clipDump(s.Stderr())})})
		return
	}
	finalChecks(r, s, wit, hist, ending, rc, strings.HasPrefix(ending, "become"))
	if idx == 0 {
		r.Sample(wit(map[string]any{"history": hist, "ending": ending, "exit": rc}))
	}
}

func firstLines(s string, n int) string {
	l := strings.Split(s, "\n")
	if len(l) > n {
		l = l[:n]
	}
	return strings.Join(l, " | ")
}

// finalChecks: terminal and system are clean after the exit.
func finalChecks(r *vk.Run, s *tty.Session, wit func(map[string]any) map[string]any, hist []string, ending string, rc int, handedOver bool) {
	// termios
	before, after := s.SttyBefore(), s.SttyAfter()
	if before != "" && after != "" && before != after {
		r.Violate(vk.Violation{Summary: fmt.Sprintf("C14: terminal settings differ after exit (%s): %s -> %s", ending, before, after), Witness: wit(map[string]any{"history": hist, "stty_before": before, "stty_after": after})})
		return
	}
	// DEC private modes
	// the pane's output is copied to the raw log by a separate process (tmux pipe-pane): give the
	// tail of the stream a bounded number of polls to arrive before judging
	led := modeLedger(s.Raw())
	for poll := 0; poll < 40 && !ledgerClean(led); poll++ {
		time.Sleep(50 * time.Millisecond)
		led = modeLedger(s.Raw())
	}
	r.Count("mode_ledgers_checked", 1)
	for _, m := range []string{"1000", "1002", "1003", "1006", "1015", "2004", "1049", "1047", "47"} {
		if led[m] == 'h' {
			r.Violate(vk.Violation{Summary: fmt.Sprintf("C14: terminal mode ?%s is still enabled after exit (%s, status %d)", m, ending, rc), Witness: wit(map[string]any{"history": hist, "mode_ledger": ledStr(led)})})
			return
		}
	}
	for _, m := range []string{"25", "7"} {
		if led[m] == 'l' {
			r.Violate(vk.Violation{Summary: fmt.Sprintf("C14: terminal mode ?%s is left reset after exit (%s, status %d): cursor hidden / autowrap off", m, ending, rc), Witness: wit(map[string]any{"history": hist, "mode_ledger": ledStr(led)})})
			return
		}
	}
	if handedOver {
		// become / start-up rejection: the process was replaced (its temp files are deliberately kept for the
		// new command, running children are not fzf's any more) or never got going
		return
	}
	// processes: the kill of running commands is asynchronous to the exit of fzf only in its last
	// instants; a bounded number of polls
	var left []tty.Proc
	for poll := 0; poll < 40; poll++ {
		left = nil
		for _, p := range s.Leftovers() {
			if strings.Contains(p.Cmd, "<zombie>") {
				continue
			}
			left = append(left, p)
		}
		if len(left) == 0 {
			break
		}
		time.Sleep(50 * time.Millisecond)
	}
	if len(left) > 0 {
		r.Violate(vk.Violation{Summary: fmt.Sprintf("C14: %d process(es) left behind 2 s after exit (%s): %s", len(left), ending, procList(left)), Witness: wit(map[string]any{"history": hist, "processes": left})})
		return
	}
	if tmp := s.TmpFiles(); len(tmp) > 0 {
		r.Violate(vk.Violation{Summary: fmt.Sprintf("C14: temporary files left after exit (%s): %v", ending, tmp), Witness: wit(map[string]any{"history": hist, "tmp": tmp})})
		return
	}
}

func ledStr(m map[string]byte) map[string]string {
	o := map[string]string{}
	for k, v := range m {
		o[k] = string(v)
	}
	return o
}

func procList(ps []tty.Proc) string {
	var o []string
	for _, p := range ps {
		o = append(o, fmt.Sprintf("%d:%s", p.Pid, p.Cmd))
	}
	return strings.Join(o, "; ")
}

// hangVerdict: two goroutine dumps cannot be taken from one process (SIGQUIT ends it), so the
// decision uses the hook trace: no trace event for 2 s while a batch is unconsumed, then the dump
// is the witness. Activity in the trace means slow, not hung: inconclusive.
func hangVerdict(r *vk.Run, s *tty.Session, wit func(map[string]any) map[string]any, hist []string) {
	if s.FzfPid() == 0 {
		r.Inconclusive(fmt.Sprintf("fzf is gone but no exit status was recorded (pane closed); history tail %v; stderr %q; rcfile %v", tailS(hist, 6), firstLines(s.Stderr(), 2), func() bool { _, ok := s.ExitCode(); return ok }()))
		return
	}
	n1 := len(s.Trace())
	time.Sleep(2 * time.Second)
	n2 := len(s.Trace())
	if _, exited := s.ExitCode(); exited {
		return
	}
	if n2 != n1 {
		r.Inconclusive("watchdog fired but the trace is still active (slow, not hung)")
		return
	}
	procs := fmt.Sprintf("%+v", s.SessionProcs())
	s.Signal(syscall.SIGQUIT)
	s.WaitExit(3 * time.Second)
	r.Violate(vk.Violation{Summary: "C14: fzf stopped responding: posted batches are not consumed and nothing happens any more", Witness: wit(map[string]any{"history": hist, "wait": s.LastWait, "processes": procs, "goroutine_dump": clipDump(s.Stderr())})})
}

func ledgerClean(led map[string]byte) bool {
	for _, m := range []string{"1000", "1002", "1003", "1006", "1015", "2004", "1049", "1047", "47"} {
		if led[m] == 'h' {
			return false
		}
	}
	return led["25"] != 'l' && led["7"] != 'l'
}

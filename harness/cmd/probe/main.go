package main

import (
	"fmt"
	"math/rand"
	"net"
	"strings"

	fzf "github.com/junegunn/fzf/src"
)

func main() {
	rng := rand.New(rand.NewSource(1))
	raws := []string{"GET / HTTP/1.1\r\nx-api-key:\tpässwördpässwörd\r\n\r\n", "GET /?limit=5 HTTP/1.1\r\nUser-Agent: curl/8\r\nAccept:\ta:b:c\r\nX-Api-Key: pässwördx\r\n\r\n"}
	for t := 0; t < 200000; t++ {
		raw := []byte(raws[t%2])
		c, s := net.Pipe()
		var cuts []int
		go func() {
			data := raw
			for len(data) > 0 {
				n := 1 + rng.Intn(1+rng.Intn(40))
				if n > len(data) {
					n = len(data)
				}
				cuts = append(cuts, n)
				if _, err := c.Write(data[:n]); err != nil {
					return
				}
				data = data[n:]
			}
			c.Close()
		}()
		reply, _, gets := fzf.VerifHandleHTTP(s, "pässwörd", "STATE")
		if gets > 0 || strings.Contains(reply, "200") {
			fmt.Printf("trial %d cuts %v -> %q\n", t, cuts, reply)
			break
		}
		s.Close()
		c.Close()
	}
	fmt.Println("done")
}

package phchk

import (
	"fmt"
	"math/rand"
	"strings"
	"time"

	"verif/harness/tty"
	"verif/harness/vk"
)

// Process-level phase of C12: the ordinal behind {n} / {+n} is assigned where the items are built
// (header lines, --with-nth, --tail, reloads), which the template-level phase cannot see. Real
// sessions: `load` moves the cursor (or selects everything) and `become(printf ...)` hands the
// expansion to the real shell; stdout must hold the ordinal and the text of that very record.

func init() { vk.RegisterWorker("c12proc", workerProc) }

func workerProc(r *vk.Run, w, n int, args []string) {
	rng := rand.New(rand.NewSource(r.Seed*15013 + int64(w)*61 + 9))
	total := 48
	if !r.Quick() {
		total = 2400
	}
	per := (total + n - 1) / n
	for i := 0; i < per; i++ {
		procCase(r, rng)
	}
}

func procCase(r *vk.Run, rng *rand.Rand) {
	nrec := 4 + rng.Intn(30)
	headerN := []int{0, 0, 1, 2, 3}[rng.Intn(5)]
	withNth := []string{"", "", "1..", "2..", "1"}[rng.Intn(5)]
	tail := 0
	if rng.Intn(4) == 0 {
		tail = 2 + rng.Intn(nrec)
	}
	var recs []string
	for i := 0; i < nrec; i++ {
		recs = append(recs, fmt.Sprintf("rec%02d f%d tail%d", i, i%7, i%3))
	}
	items := recs[min(headerN, nrec):]
	first := 0 // ordinal of the first listed item
	if tail > 0 && len(items) > tail {
		first = len(items) - tail
	}
	listed := len(items) - first
	if listed <= 0 {
		return
	}
	fzfArgs := []string{"--no-mouse", "--multi", "--sync"}
	if headerN > 0 {
		fzfArgs = append(fzfArgs, fmt.Sprintf("--header-lines=%d", headerN))
	}
	if withNth != "" {
		fzfArgs = append(fzfArgs, "--with-nth", withNth)
	}
	if tail > 0 {
		fzfArgs = append(fzfArgs, fmt.Sprintf("--tail=%d", tail))
	}
	var want []string
	all := rng.Intn(3) == 0
	if all {
		fzfArgs = append(fzfArgs, "--bind", `load:select-all+become(printf '%s\n' {+n})`)
		for i := 0; i < listed; i++ {
			want = append(want, fmt.Sprint(first+i))
		}
	} else {
		k := rng.Intn(listed)
		fzfArgs = append(fzfArgs, "--bind", fmt.Sprintf(`load:pos(%d)+become(printf '%%s\n' {n} {})`, k+1))
		want = []string{fmt.Sprint(first + k), items[first+k]}
	}
	s, err := tty.Start(tty.StartOpts{Args: fzfArgs, Input: []byte(strings.Join(recs, "\n") + "\n"), NoListen: true, Cols: 80, Rows: 24})
	if err != nil {
		r.Inconclusive("start: " + err.Error())
		if s != nil {
			s.Close()
		}
		return
	}
	defer s.Close()
	if _, ok := s.WaitExit(30 * time.Second); !ok {
		r.Inconclusive("become did not end the session")
		return
	}
	r.Eval(1)
	r.Count("ordinal_sessions", 1)
	got := strings.Split(strings.TrimSuffix(string(s.Stdout()), "\n"), "\n")
	r.Distinct(fmt.Sprintf("ordinal hdr%d nth%q tail%v all%v", headerN, withNth, tail > 0, all))
	if !eq(got, want) {
		r.Violate(vk.Violation{Summary: fmt.Sprintf("C12: {n} / {} expanded to %q, the record at that position has ordinal and text %q (options %v, %d records)", got, want, fzfArgs, nrec),
			Witness: map[string]any{"fzf_args": fzfArgs, "records": recs, "stdout": string(s.Stdout()), "stderr": s.Stderr()}})
	}
}

func min(a, b int) int {
	if a < b {
		return a
	}
	return b
}

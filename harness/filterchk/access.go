package filterchk

import (
	"fmt"
	"math/rand"
	"sort"

	fzf "github.com/junegunn/fzf/src"
	"github.com/junegunn/fzf/src/util"

	"verif/harness/matchchk"
	"verif/harness/vk"
)

// Access-pattern phase of C04: the lazily merged result list must read the same whatever the
// consumer's access pattern is. The real Matcher scans a real ChunkList snapshot twice; one Merger
// is read front to back, the twin is read with index probes (jumps ahead followed by reads further
// on, strides, backwards, ends first); every probe must return the item the sequential reader got
// at that position, and the sequential order must equal a single-threaded reference sort.
//
// Runs in worker processes of its own: the sort criteria are process-global in fzf.

func init() { vk.RegisterWorker("c04access", workerAccess) }

func workerAccess(r *vk.Run, w, n int, args []string) {
	rng := rand.New(rand.NewSource(r.Seed*4409 + int64(w)*977 + 5))
	cases := 40
	if !r.Quick() {
		cases = 400
	}
	for c := 0; c < cases; c++ {
		accessCase(r, rng)
	}
}

func accessCase(r *vk.Run, rng *rand.Rand) {
	parts := []int{1, 2, 3, 5, 8, 16, 32}[rng.Intn(7)]
	tac := rng.Intn(2) == 0
	size := []int{0, 1, 50, 100, 101, 450, 1000, 3300, 7000}[rng.Intn(9)]
	tail := 0
	if rng.Intn(4) == 0 && size > 100 {
		tail = 1 + rng.Intn(size)
	}
	w := matchchk.NewWorld(parts, true, tac)
	for i := 0; i < size; i++ {
		w.List.Push([]byte(matchchk.ItemText(i)))
	}
	chunks, _, _ := w.List.Snapshot(tail)
	items := matchchk.Flatten(chunks)
	pb := fzf.VerifPatternBuilder(w.Cache, true, 0, true, fzf.CaseSmart, true, true, false, true)
	for k := 0; k < 6; k++ {
		q := matchchk.Queries[rng.Intn(len(matchchk.Queries))]
		mgSeq, _ := fzf.VerifMatcherScan(w.M, chunks, pb([]rune(q)))
		mgPr, _ := fzf.VerifMatcherScan(w.M, chunks, pb([]rune(q)))
		if mgSeq == nil || mgPr == nil {
			r.Inconclusive("scan returned no merger")
			return
		}
		n := mgSeq.Length()
		wit := map[string]any{"items": size, "tail": tail, "partitions": parts, "tac": tac, "query": q, "matches": n}
		var plan []int
		pname := ""
		switch rng.Intn(6) {
		case 0:
			pname = "jump-then-forward"
			if n > 0 {
				k0 := rng.Intn(n)
				for i := k0; i < n; i++ {
					plan = append(plan, i)
				}
			}
		case 1:
			pname = "random-probes"
			for i := 0; i < 40 && n > 0; i++ {
				plan = append(plan, rng.Intn(n))
			}
		case 2:
			pname = "increasing-jumps"
			for i := rng.Intn(50); i < n; i += 1 + rng.Intn(1+n/6) {
				plan = append(plan, i)
				if rng.Intn(2) == 0 && i+1 < n {
					plan = append(plan, i+1)
				}
			}
		case 3:
			pname = "backward"
			for i := n - 1; i >= 0; i-- {
				plan = append(plan, i)
			}
		case 4:
			pname = "ends-first"
			if n > 0 {
				plan = append(plan, n-1, 0, n/2, n/2+1, n/3)
			}
		default:
			pname = "window-then-all" // what GET /?offset=..&limit=.. followed by a full GET does
			if n > 0 {
				o := rng.Intn(n)
				for i := o; i < n && i < o+1+rng.Intn(5); i++ {
					plan = append(plan, i)
				}
			}
		}
		for i := 0; i < n; i++ {
			plan = append(plan, i)
		}
		wit["access_pattern"] = pname
		var seq []int32
		bad := ""
		func() {
			defer func() {
				if p := recover(); p != nil {
					bad = fmt.Sprintf("panic while reading the result list: %v", p)
				}
			}()
			seq = make([]int32, n)
			for i := 0; i < n; i++ {
				seq[i] = fzf.VerifItemIndex(fzf.VerifMergerItem(mgSeq, i))
			}
			for step, i := range plan {
				if i >= n {
					continue
				}
				got := fzf.VerifItemIndex(fzf.VerifMergerItem(mgPr, i))
				if got != seq[i] {
					bad = fmt.Sprintf("probe %d of the plan reads item %d at position %d, a sequential reader finds item %d there", step, got, i, seq[i])
					wit["plan_head"] = headInts(plan, step+1)
					return
				}
			}
		}()
		r.Eval(1)
		r.Count("access_cases", 1)
		r.Count("access_probes", int64(len(plan)))
		r.Distinct(fmt.Sprintf("access %s parts%d tac%v size%d tail%v q%q", pname, parts, tac, size, tail > 0, q))
		if bad != "" {
			r.Violate(vk.Violation{Summary: fmt.Sprintf("C04: %s (query %q, %d matches of %d items, %d partitions, tac=%v, access pattern %s)", bad, q, n, len(items), parts, tac, pname), Witness: wit})
			return
		}
		ref := w.Reference(items, q)
		if len(ref) != len(seq) {
			r.Violate(vk.Violation{Summary: fmt.Sprintf("C04: the result list has %d entries, the reference filter finds %d (query %q, %d items, %d partitions)", len(seq), len(ref), q, len(items), parts), Witness: wit})
			return
		}
		for i := range ref {
			if ref[i] != seq[i] {
				wit["position"] = i
				r.Violate(vk.Violation{Summary: fmt.Sprintf("C04: position %d of the merged list holds item %d, one global sort puts item %d there (query %q, %d items, %d partitions, tac=%v)", i, seq[i], ref[i], q, len(items), parts, tac), Witness: wit})
				return
			}
		}
		// toggle-sort: a matcher with the other sort flag reads the same chunk cache (the cache survives a
		// toggle); with sorting off the list must be in input order (reversed under --tac), whatever the
		// sorted scan left in the cache
		if k%2 == 1 {
			m2 := fzf.VerifNewMatcher(w.Cache, pb, false, tac, util.NewEventBox(), parts)
			mgU, _ := fzf.VerifMatcherScan(m2, chunks, pb([]rune(q)))
			if mgU == nil {
				r.Inconclusive("scan returned no merger")
				return
			}
			r.Count("toggle_sort_scans", 1)
			want := append([]int32(nil), ref...)
			sort.Slice(want, func(a, b int) bool {
				if tac {
					return want[a] > want[b]
				}
				return want[a] < want[b]
			})
			if mgU.Length() != len(want) {
				r.Violate(vk.Violation{Summary: fmt.Sprintf("C04: with sorting switched off the list has %d entries, the reference finds %d (query %q)", mgU.Length(), len(want), q), Witness: wit})
				return
			}
			for i := range want {
				if got := fzf.VerifItemIndex(fzf.VerifMergerItem(mgU, i)); got != want[i] {
					wit["position"] = i
					r.Violate(vk.Violation{Summary: fmt.Sprintf("C04: with sorting switched off after a sorted search of the same query, position %d holds item %d, input order puts item %d there (query %q, %d items, %d partitions, tac=%v)", i, got, want[i], q, len(items), parts, tac), Witness: wit})
					return
				}
			}
		}
	}
}

func headInts(a []int, n int) []int {
	if n > len(a) {
		n = len(a)
	}
	if n > 60 {
		return a[n-60 : n]
	}
	return a[:n]
}

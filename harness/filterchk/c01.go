package filterchk

import (
	"bytes"
	"fmt"
	"math/rand"
	"sort"
	"strings"
	"time"

	"verif/harness/fzfrun"
	"verif/harness/refq"
	"verif/harness/vk"
)

func init() {
	vk.RegisterWorker("c01", workerC01)
}

func MainC01(prop, tier string) int {
	r := vk.New("C01", tier)
	r.Rule = "(list of 0..40 lines over an alphabet with mixed case, accents, blanks and the operator characters) x (well-formed query from the grammar: 1-3 AND groups x 1-3 alternatives x six term kinds x negation, bodies with mixed case / accents / escaped spaces; half of them derived from a line so that they match) x (random subset of --exact, +x, -i|+i, --literal, --algo, --no-sort, --tac, --scheme, --tiebreak). The emitted multiset must equal the lines the independent reference evaluator accepts. Library mode for volume, the built binary over stdin for a share. Query sequences: the real Matcher with its pattern and chunk caches scans 100..1000 lines (full chunks) for sequences of related queries (A, A B, B A, A T, ... in random order); after every scan the matched lines must be what the reference accepts for that query alone. distinct = (query shape, option set, some-matched/none/all) signatures"
	r.Assumptions = []string{"reference evaluator written from README/man (refq), sharing only the accent table with fzf", "well-formed queries only: operators applied to a non-empty body that does not itself begin or end with an operator character; no literal tab in queries", "lines contain no newline"}
	if _, err := fzfrun.Bin(); err != nil {
		r.Inconclusive(err.Error())
		fmt.Println(err)
		r.Floor("lines_evaluated", 1)
		return r.Finish()
	}
	r.Fanout("c01", vk.NumWorkers(), 40*time.Minute)
	r.Fanout("c01cache", vk.NumWorkers(), 40*time.Minute)
	r.Floor("sequence_scans", 100)
	r.Floor("lines_evaluated", 10000)
	r.Floor("lines_matched", 1000)
	r.Floor("proc_runs", 10)
	return r.Finish()
}

func multiset(xs []string) map[string]int {
	m := map[string]int{}
	for _, x := range xs {
		m[x]++
	}
	return m
}

func diffMultiset(got, want []string) (missing, extra []string) {
	g, w := multiset(got), multiset(want)
	for k, n := range w {
		for i := g[k]; i < n; i++ {
			missing = append(missing, k)
		}
	}
	for k, n := range g {
		for i := w[k]; i < n; i++ {
			extra = append(extra, k)
		}
	}
	sort.Strings(missing)
	sort.Strings(extra)
	return
}

func workerC01(r *vk.Run, w, n int, args []string) {
	rng := rand.New(rand.NewSource(r.Seed*52711 + int64(w)*13 + 1))
	g := NewGen(rng, w)
	bin, _ := fzfrun.Bin()
	runs := 300000
	if !r.Quick() {
		runs = 12000000
	}
	per := runs / n
	for i := 0; i < per; i++ {
		nl := rng.Intn(41)
		lines := g.Lines(nl, 12)
		o := g.Options()
		var q, qsig string
		if !o.Ref.Extended {
			// the whole query is one term: plain characters and spaces
			m := 1 + rng.Intn(3)
			rs := make([]rune, m)
			for j := range rs {
				rs[j] = append(bodyAlpha, ' ')[rng.Intn(len(bodyAlpha)+1)]
			}
			q, qsig = string(rs), "plain"
		} else {
			q, qsig = g.QueryFor(lines)
		}
		if i%120 == 5 && o.Ref.Extended {
			// lines beyond the scratch memory (len(line)*len(term) > 102400): the fuzzy
			// matcher falls back to the greedy algorithm; folding must not change
			for k := 0; k < 2; k++ {
				alpha := [][]rune{{'A', 'B', 'É', ' ', 'Ö'}, {'a', 'b', 'é', '/', 'A', '1'}}[k]
				L := 36000 + rng.Intn(30000)
				rs := make([]rune, L)
				for j := range rs {
					rs[j] = alpha[rng.Intn(len(alpha))]
				}
				lines = append(lines, string(rs))
			}
			bodies := []string{"abe", "aba", "bao", "eab", "abab", "aBe", "éab"}
			q, qsig = bodies[rng.Intn(len(bodies))], "long-line fuzzy"
			if rng.Intn(3) == 0 {
				q, qsig = "!"+"'"+q, "long-line !fuzzy"
			}
			r.Count("long_line_runs", 1)
		}
		argv := append([]string{"--filter", q}, o.Args...)
		vk.SetCase(map[string]any{"args": argv, "lines": lines})
		rq := refq.Parse(q, o.Ref)
		var want []string
		for _, l := range lines {
			if rq.Matches(l, nil) {
				want = append(want, l)
			}
		}
		var got []string
		var code int
		mode := "lib"
		if i%25 == 24 {
			mode = "proc"
			res := fzfrun.Proc(bin, argv, []byte(joinLines(lines)), 60*time.Second)
			if res.TimedOut {
				r.Inconclusive("fzf --filter timed out")
				continue
			}
			code = res.Code
			got = splitLines(res.Stdout)
			r.Count("proc_runs", 1)
			if bytes.Contains(res.Stderr, []byte("panic:")) || bytes.Contains(res.Stderr, []byte("fatal error:")) {
				r.Violate(vk.Violation{Summary: "C01: fzf crashed in filter mode", Witness: map[string]any{"args": argv, "lines": lines, "stderr": string(res.Stderr)}})
				continue
			}
		} else {
			var err error
			got, code, err = fzfrun.Lib(argv, lines)
			if err != nil {
				r.Violate(vk.Violation{Summary: fmt.Sprintf("C01: fzf.Run failed: %v args=%q", err, argv), Witness: map[string]any{"args": argv, "lines": lines}})
				continue
			}
		}
		r.Eval(1)
		r.Count("lines_evaluated", int64(len(lines)))
		r.Count("lines_matched", int64(len(want)))
		outcome := "some"
		if len(want) == 0 {
			outcome = "none"
		} else if len(want) == len(lines) {
			outcome = "all"
		}
		r.Distinct(qsig + " / " + o.Sig + " / " + outcome)
		missing, extra := diffMultiset(got, want)
		wit := map[string]any{"mode": mode, "args": argv, "query": q, "lines": lines, "output": got, "expected": want, "missing": missing, "extra": extra, "exit": code,
			"reference_parse": fmt.Sprintf("%+v", rq)}
		if len(missing) > 0 || len(extra) > 0 {
			r.Violate(vk.Violation{Summary: fmt.Sprintf("C01: fzf %s emitted a different set: missing=%q extra=%q", quoteArgs(argv), missing, extra), Witness: wit})
			continue
		}
		expCode := 0
		if len(want) == 0 {
			expCode = 1
		}
		if code != expCode {
			r.Violate(vk.Violation{Summary: fmt.Sprintf("C01: fzf %s exit status %d, expected %d", quoteArgs(argv), code, expCode), Witness: wit})
		}
		if i%1500 == 7 {
			delete(wit, "missing")
			delete(wit, "extra")
			r.Sample(wit)
		}
	}
}

func joinLines(lines []string) string {
	if len(lines) == 0 {
		return ""
	}
	return strings.Join(lines, "\n") + "\n"
}

func splitLines(b []byte) []string {
	if len(b) == 0 {
		return nil
	}
	s := strings.TrimSuffix(string(b), "\n")
	return strings.Split(s, "\n")
}

func quoteArgs(a []string) string {
	q := make([]string, len(a))
	for i, s := range a {
		q[i] = fmt.Sprintf("%q", s)
	}
	return strings.Join(q, " ")
}

package main

import (
	"fmt"
	"math/rand"
	"os"
	"os/exec"
	"syscall"
	"time"

	"verif/harness/tty"
)

func main() {
	os.Setenv("VERIF_SCRATCH", "/tmp/probe-scr")
	os.MkdirAll("/tmp/probe-scr", 0o755)
	rng := rand.New(rand.NewSource(11))
	bad, total := 0, 0
	for trial := 0; trial < 60 && bad < 2; trial++ {
		s, err := tty.Start(tty.StartOpts{InputCmd: "seq 1 60", Args: []string{"--no-unicode", "--info=hidden", "--no-scrollbar", "--multi"}, Cols: 60, Rows: 20})
		if err != nil {
			fmt.Println("start:", err)
			return
		}
		s.WaitQuiescent(10 * time.Second)
		for round := 0; round < 12; round++ {
			for k := 0; k < 3; k++ {
				s.Post([]string{"down", "toggle-sort", "half-page-down", "up", "put(1)", "clear-query", "toggle-all"}[rng.Intn(7)])
			}
			c, r := 30+rng.Intn(80), 8+rng.Intn(22)
			s.Resize(c, r)
			total++
			if !s.WaitRedraw(c, r, 5*time.Second) {
				bad++
				psz, _ := s.PaneSize()
				pid := s.FzfPid()
				tty, _ := os.Readlink(fmt.Sprintf("/proc/%d/fd/2", pid))
				out, _ := exec.Command("sh", "-c", "stty size < /dev/"+func() string { l, _ := os.Readlink(fmt.Sprintf("/proc/%d/fd/0", s.PanePid)); return l[5:] }()).CombinedOutput()
				fmt.Printf("trial %d round %d: wanted %dx%d pane %s fzf pid %d fd2 %s stty size: %s", trial, round, c, r, psz, pid, tty, out)
				syscall.Kill(pid, syscall.SIGWINCH)
				fmt.Println(" after manual SIGWINCH redraw:", s.WaitRedraw(c, r, 3*time.Second))
				break
			}
		}
		s.Close()
	}
	fmt.Println("bad", bad, "of", total)
}

#!/bin/bash
# isolated_matrix.sh [dir]: run the seed matrix on private copies (git worktrees of the HEADs) of /verif and /repo,
# so that /repo's working tree and the harness sources stay free for other work meanwhile.
# Results: <dir>/matrix.out and <dir>/verif/seeded/*/meta.json (copy the latter back with --collect).
D="${1:-/tmp/mx}"
if [ "$1" = "--collect" ]; then
  D="${2:-/tmp/mx}"
  for m in "$D"/verif/seeded/*/meta.json; do id=$(basename "$(dirname "$m")"); [ -d "/verif/seeded/$id" ] && cp "$m" "/verif/seeded/$id/meta.json"; done
  exit 0
fi
git -C /repo worktree remove --force "$D/repo" 2>/dev/null; git -C /verif worktree remove --force "$D/verif" 2>/dev/null; rm -rf "$D"; mkdir -p "$D"
git -C /repo worktree add --detach "$D/repo" HEAD >/dev/null 2>&1 || exit 2
git -C /verif worktree add --detach "$D/verif" HEAD >/dev/null 2>&1 || exit 2
sed -i "s|=> /repo|=> $D/repo|" "$D/verif/harness/go.mod"
cp /repo/go.sum "$D/verif/harness/go.sum" 2>/dev/null
VERIF_HOME="$D/verif" REPO_HOME="$D/repo" "$D/verif/scripts/seedmatrix.sh" > "$D/matrix.out" 2>&1
echo "matrix finished" >> "$D/matrix.out"

package main

import (
	"fmt"
	"math/rand"
	"os"
	"strings"
	"sync"
	"syscall"
	"time"

	"verif/harness/tty"
)

// throw-away probe: header lines + reload bursts (lock order between the event box and the chunk list)
func main() {
	os.Setenv("VERIF_SCRATCH", "/tmp/probe-scr")
	os.MkdirAll("/tmp/probe-scr", 0o755)
	var sb strings.Builder
	for i := 0; i < 300; i++ {
		fmt.Fprintf(&sb, "line %d\n", i)
	}
	os.WriteFile("/tmp/probe-scr/in", []byte(sb.String()), 0o644)
	var wg sync.WaitGroup
	var mu sync.Mutex
	stuck, sessions := 0, 0
	for w := 0; w < 12; w++ {
		wg.Add(1)
		go func(w int) {
			defer wg.Done()
			rng := rand.New(rand.NewSource(int64(w) + 100))
			for trial := 0; trial < 6; trial++ {
				s, err := tty.Start(tty.StartOpts{InputCmd: "cat /tmp/probe-scr/in", Args: []string{"--header-lines=3"}, Cols: 60, Rows: 20, Points: os.Getenv("PROBE_POINTS")})
				if err != nil {
					fmt.Println("start:", err)
					return
				}
				s.WaitQuiescent(10 * time.Second)
				ok := true
				for round := 0; round < 40 && ok; round++ {
					s.Post("execute-silent(sleep 0.05)")
					s.Post("reload(cat /tmp/probe-scr/in)")
					for k := 0; k < rng.Intn(3); k++ {
						s.Post([]string{"put(1)", "backward-delete-char", "toggle-sort", "reload(cat /tmp/probe-scr/in)"}[rng.Intn(4)])
					}
					if _, q := s.WaitQuiescent(8 * time.Second); !q {
						ok = false
						mu.Lock()
						stuck++
						fmt.Printf("STUCK worker %d trial %d round %d: %s\n", w, trial, round, s.LastWait)
						if stuck == 1 {
							s.Signal(syscall.SIGQUIT)
							s.WaitExit(3 * time.Second)
							d := s.Stderr()
							for _, g := range strings.Split(d, "\n\n") {
								if strings.Contains(g, "ChunkList") {
									fmt.Println(g[:min(len(g), 900)])
								}
							}
						}
						mu.Unlock()
					}
				}
				mu.Lock()
				sessions++
				mu.Unlock()
				s.Close()
			}
		}(w)
	}
	wg.Wait()
	fmt.Printf("sessions=%d stuck=%d\n", sessions, stuck)
}

func min(a, b int) int {
	if a < b {
		return a
	}
	return b
}

// Package httpchk decides C16 at the request-handler boundary (volume, over
// net.Pipe) and at process level for the listener start-up rule; liveness and
// state-before/after over real TCP are driven by the tty engine.
package httpchk

import (
	"bytes"
	"fmt"
	"math/rand"
	"net"
	"reflect"
	"regexp"
	"strconv"
	"strings"
	"time"

	fzf "github.com/junegunn/fzf/src"

	"verif/harness/fzfrun"
	"verif/harness/vk"
)

func init() { vk.RegisterWorker("c16", worker) }

func Main(prop, tier string) int {
	r := vk.New("C16", tier)
	r.Rule = "generated requests handed to the real request handler over net.Pipe with random write splits and early close: valid POSTs (header order/case/duplication, body longer than Content-Length, trailing CRLF), missing/zero/negative/huge/non-numeric/mismatched Content-Length, method/path variants, GET with parameters, unknown actions, 1 MiB(+1) bodies, binary garbage, with and without a configured key (missing, wrong, prefix, suffix, other case, empty, key only in the body, duplicate headers). Oracles: reply grammar (status line, headers, Content-Length-exact body); an action list reaches the action channel iff the request is a complete POST with the exact key, and then equals the parse of the same text as a --bind action list; GET and every rejected request leave the channel empty; without the exact key no state text appears in any reply. Real TCP inside interactive sessions (private tmux server): after every hostile connection (garbage, truncated and stalled requests, overflowing GET parameters, 70 KB headers, 1 MiB+1 bodies, wrong keys) a valid GET must still answer with an unchanged state and fzf must be alive; POST X on one instance and X bound to a key on another end in the same state; local listeners are bound to loopback. Process level: non-local --listen addresses without FZF_API_KEY exit 2; an address classified local is loopback. distinct = (request class, key situation, split plan, outcome) signatures"
	r.Assumptions = []string{"the version token after `POST / HTTP` is not validated by fzf and is not a rejection criterion here", "stalled connections are bounded by the server's 10 s read deadline and exercised by the interactive check"}
	if _, err := fzfrun.Bin(); err != nil {
		r.Inconclusive(err.Error())
		r.Floor("requests", 1)
		return r.Finish()
	}
	r.Fanout("c16", vk.NumWorkers(), 30*time.Minute)
	r.Fanout("c16tcp", vk.NumWorkers(), 30*time.Minute)
	r.Floor("tcp_hostile_requests", 50)
	r.Floor("equivalence_pairs", 3)
	r.Floor("requests", 5000)
	r.Floor("accepted_posts", 500)
	r.Floor("keyed_rejections", 500)
	r.Floor("listen_spellings", 10)
	return r.Finish()
}

var replyRe = regexp.MustCompile(`(?s)^HTTP/1\.1 (200 OK|400 Bad Request|401 Unauthorized|503 Service Unavailable)\r\n((?:[A-Za-z-]+: [^\r\n]*\r\n)*)\r\n(.*)$`)

const stateJSON = `{"secret-state-marker":true,"matches":[{"text":"SECRETLINE"}]}`

var actionBodies = []string{"up", "down+up", "abort", "change-query(foo bar)", "change-prompt:x> ", "execute-silent(echo hi)+down", "toggle+down", "first", "put(a)", "reload(seq 10)", "change-query[)(]", "pos(3)", "select-all+accept", "transform-query:echo {q}"}
var badBodies = []string{"no-such-action", "up+", "+", "execute(", "change-query", "", "up,down"}

type req struct {
	raw     []byte
	class   string
	expect  string // "200-actions" | "200-get" | "reject" | "any"
	body    string // the action text when expect == 200-actions
	hasKey  bool   // raw request carries the exact key in an x-api-key header
	keyCase string
}

func hdr(rng *rand.Rand, name, val string) string {
	switch rng.Intn(4) {
	case 0:
		name = strings.ToUpper(name)
	case 1:
		name = strings.Title(name)
	}
	sp := []string{" ", "", "  ", "\t"}[rng.Intn(4)]
	return name + ":" + sp + val + "\r\n"
}

func genReq(rng *rand.Rand, key string) req {
	var b bytes.Buffer
	q := req{}
	// key situation
	keyHdr := ""
	if key != "" {
		switch rng.Intn(9) {
		case 0, 1, 2:
			keyHdr, q.hasKey, q.keyCase = key, true, "exact"
		case 3:
			q.keyCase = "missing"
		case 4:
			keyHdr, q.keyCase = key+"x", "suffix"
		case 5:
			keyHdr, q.keyCase = key[:len(key)-1], "prefix"
		case 6:
			keyHdr, q.keyCase = strings.ToUpper(key), "case"
		case 7:
			keyHdr, q.keyCase = "", "empty"
		case 8:
			keyHdr, q.keyCase = key+key, "doubled"
		}
	}
	addKey := func() {
		if q.keyCase != "" && q.keyCase != "missing" {
			b.WriteString(hdr(rng, "x-api-key", keyHdr))
		}
	}
	filler := func() {
		for i := 0; i < rng.Intn(3); i++ {
			b.WriteString(hdr(rng, []string{"Host", "User-Agent", "Accept", "X-Other"}[rng.Intn(4)], []string{"localhost", "curl/8", "*/*", "a:b:c"}[rng.Intn(4)]))
		}
	}
	post := func(body string, cl string) {
		b.WriteString("POST / HTTP/1.1\r\n")
		filler()
		if rng.Intn(2) == 0 {
			addKey()
			if cl != "" {
				b.WriteString(hdr(rng, "content-length", cl))
			}
		} else {
			if cl != "" {
				b.WriteString(hdr(rng, "content-length", cl))
			}
			addKey()
		}
		filler()
		b.WriteString("\r\n")
		b.WriteString(body)
	}
	switch c := rng.Intn(16); c {
	case 0, 1, 2, 3, 4: // valid POST
		body := actionBodies[rng.Intn(len(actionBodies))]
		q.class, q.expect, q.body = "post-valid", "200-actions", body
		wire := body
		cl := len(body)
		switch rng.Intn(4) {
		case 0:
			wire = body + "\r\n"
			cl = len(wire)
			q.class = "post-valid-crlf"
		case 1:
			wire = body + "+EXTRA-BEYOND-LENGTH"
			q.class = "post-valid-extra"
		}
		post(wire, strconv.Itoa(cl))
		if rng.Intn(6) == 0 { // duplicate content-length: the last one counts -> put a wrong one first
			raw := b.String()
			raw = strings.Replace(raw, "POST / HTTP/1.1\r\n", "POST / HTTP/1.1\r\nContent-Length: 1\r\n", 1)
			b.Reset()
			b.WriteString(raw)
			q.class += "-dupcl"
		}
	case 5: // body shorter than announced, then EOF
		body := actionBodies[rng.Intn(len(actionBodies))]
		q.class, q.expect = "post-short-body", "reject"
		post(body, strconv.Itoa(len(body)+1+rng.Intn(50)))
	case 6: // no content-length
		q.class, q.expect = "post-no-length", "reject"
		post(actionBodies[rng.Intn(len(actionBodies))], "")
	case 7: // bad content-length values
		q.class, q.expect = "post-bad-length", "reject"
		post("up", []string{"0", "-1", "abc", "1e3", "99999999999999999999", "1048577", " ", "2 2"}[rng.Intn(8)])
	case 8: // other methods / paths
		q.class, q.expect = "bad-method", "reject"
		line := []string{"PUT / HTTP/1.1", "POST /x HTTP/1.1", "post / HTTP/1.1", "GET /x HTTP/1.1", "DELETE / HTTP/1.1", "POST  / HTTP/1.1", "GET /?LIMIT=1 HTTP/1.1", "HEAD / HTTP/1.1", " POST / HTTP/1.1", "GET / FTP"}[rng.Intn(10)]
		b.WriteString(line + "\r\n")
		filler()
		addKey()
		b.WriteString(hdr(rng, "content-length", "2"))
		b.WriteString("\r\nup")
	case 9, 10: // GET
		q.class, q.expect = "get", "200-get"
		b.WriteString([]string{"GET / HTTP/1.1", "GET /?limit=5 HTTP/1.1", "GET /?limit=0&offset=3 HTTP/1.0", "GET /?offset=99999999999999999999 HTTP/1.1", "GET /?limit=9223372036854775807&offset=1 HTTP/1.1"}[rng.Intn(5)] + "\r\n")
		filler()
		addKey()
		b.WriteString("\r\n")
	case 11: // unknown / malformed action list
		q.class, q.expect = "post-bad-action", "reject"
		body := badBodies[rng.Intn(len(badBodies))]
		cl := len(body)
		if cl == 0 {
			body, cl = "\r\n", 2
		}
		post(body, strconv.Itoa(cl))
	case 12: // large bodies
		n := []int{1024 * 1024, 1024*1024 + 1, 70000}[rng.Intn(3)]
		tail := map[int]string{0: "select", 1: "down", 2: "up"}[n%3]
		body := strings.Repeat("up+", (n-len(tail))/3) + tail
		q.class = fmt.Sprintf("post-large-%d", n)
		if n > 1024*1024 {
			q.expect = "reject"
		} else {
			q.expect, q.body = "200-actions", body
		}
		post(body, strconv.Itoa(len(body)))
	case 13: // key only in the body, not in a header
		q.class, q.expect = "key-in-body", "200-actions"
		body := "change-query(" + key + ")"
		q.body = body
		saveCase, saveHas := q.keyCase, q.hasKey
		post(body, strconv.Itoa(len(body)))
		q.keyCase, q.hasKey = saveCase, saveHas
	default: // garbage
		q.class, q.expect = "garbage", "any"
		n := rng.Intn(300)
		if rng.Intn(10) == 0 {
			n = 70000
		}
		g := make([]byte, n)
		for i := range g {
			g[i] = []byte{'P', 'O', 'S', 'T', ' ', '/', 'G', 'E', ':', '\r', '\n', 0, 0xff, '1', 'a', '-'}[rng.Intn(16)]
		}
		b.Write(g)
		if key != "" {
			q.hasKey = bytes.Contains(g, []byte(key))
		}
	}
	q.raw = b.Bytes()
	return q
}

func worker(r *vk.Run, w, n int, args []string) {
	rng := rand.New(rand.NewSource(r.Seed*15485863 + int64(w)*61 + 3))
	if w == 0 {
		listenRule(r)
	}
	total := 200000
	if !r.Quick() {
		total = 3200000
	}
	per := total / n
	for i := 0; i < per; i++ {
		key := ""
		if rng.Intn(2) == 0 {
			key = []string{"secret", "K3y-with:colon", "a", "pässwörd"}[rng.Intn(4)]
		}
		q := genReq(rng, key)
		if len(q.raw) > 200000 && i%16 != 0 {
			continue // keep the large ones rare
		}
		vk.SetCase(map[string]any{"class": q.class, "key": key, "raw_head": clip(q.raw)})
		reply, actions, gets, plan, inconcl := drive(rng, q.raw, key)
		if inconcl != "" {
			r.Inconclusive(inconcl)
			continue
		}
		if plan == "close-early" {
			q.expect = "any" // a truncated request may be anything; grammar and key rules still apply
			if key != "" && bytes.Contains(q.raw, []byte(key)) {
				q.hasKey = true // the cut may fall right after the key: not a refutation either way
			}
		}
		r.Eval(1)
		r.Count("requests", 1)
		status := ""
		m := replyRe.FindStringSubmatch(reply)
		wit := map[string]any{"class": q.class, "key_configured": key, "key_situation": q.keyCase, "request_head": clip(q.raw), "request_len": len(q.raw), "write_plan": plan, "reply": clipS(reply), "actions_on_channel": actions, "state_handler_calls": gets}
		if m == nil {
			r.Violate(vk.Violation{Summary: fmt.Sprintf("C16: reply is not a well-formed HTTP answer: %q (request class %s)", clipS(reply), q.class), Witness: wit})
			continue
		}
		status = m[1][:3]
		// Content-Length exact when present
		for _, h := range strings.Split(m[2], "\r\n") {
			if strings.HasPrefix(strings.ToLower(h), "content-length: ") {
				n, err := strconv.Atoi(strings.TrimSpace(h[16:]))
				if err != nil || n != len(m[3]) {
					r.Violate(vk.Violation{Summary: fmt.Sprintf("C16: Content-Length %q but the body has %d bytes (class %s)", h, len(m[3]), q.class), Witness: wit})
				}
			}
		}
		r.Distinct(fmt.Sprintf("%s key=%v/%s plan=%s -> %s", q.class, key != "", q.keyCase, plan, status))
		authorised := key == "" || q.hasKey
		if key != "" && !authorised {
			r.Count("keyed_rejections", 1)
			if len(actions) > 0 {
				r.Violate(vk.Violation{Summary: fmt.Sprintf("C16: an action was accepted without the exact API key (key situation %s, class %s): %v", q.keyCase, q.class, actions), Witness: wit})
				continue
			}
			if strings.Contains(reply, "secret-state-marker") || strings.Contains(reply, "SECRETLINE") || gets > 0 {
				r.Violate(vk.Violation{Key: f3key(q), Summary: fmt.Sprintf("C16: state was revealed without the exact API key (key situation %s, class %s)", q.keyCase, q.class), Witness: wit})
				continue
			}
			if status == "200" {
				r.Violate(vk.Violation{Summary: fmt.Sprintf("C16: status 200 without the exact API key (key situation %s, class %s)", q.keyCase, q.class), Witness: wit})
				continue
			}
		}
		switch q.expect {
		case "200-actions":
			if !authorised {
				break
			}
			want, perr := fzf.VerifParseActionList(strings.Trim(q.body, "\r\n"))
			if perr != nil {
				r.Inconclusive("body does not parse as a bind action list: " + q.body)
				break
			}
			r.Count("accepted_posts", 1)
			if status != "200" || len(actions) != 1 || !reflect.DeepEqual(actions[0], want) {
				wit["expected_actions"] = want
				r.Violate(vk.Violation{Summary: fmt.Sprintf("C16: valid POST (%s) answered %s with actions %v; the same text as a --bind action list is %v", q.class, status, clipActs(actions), clipA(want)), Witness: wit})
			}
			if gets != 0 {
				r.Violate(vk.Violation{Summary: "C16: POST invoked the state handler", Witness: wit})
			}
		case "200-get":
			if len(actions) != 0 {
				r.Violate(vk.Violation{Summary: fmt.Sprintf("C16: GET put actions on the action channel: %v", actions), Witness: wit})
			}
			if authorised && (status != "200" || m[3] != stateJSON+"\n") {
				r.Violate(vk.Violation{Summary: fmt.Sprintf("C16: GET answered %s %q", status, clipS(m[3])), Witness: wit})
			}
		case "reject":
			if len(actions) != 0 || gets != 0 {
				r.Violate(vk.Violation{Summary: fmt.Sprintf("C16: a request that must be rejected (%s) had side effects: actions=%v state handler calls=%d", q.class, actions, gets), Witness: wit})
			} else if status == "200" {
				r.Violate(vk.Violation{Summary: fmt.Sprintf("C16: a request that must be rejected (%s) was answered 200", q.class), Witness: wit})
			}
		}
		if i%3000 == 11 {
			r.Sample(wit)
		}
	}
}

func f3key(q req) string {
	if q.class == "get" {
		return "F3-get-bypasses-api-key"
	}
	return ""
}

func clip(b []byte) string {
	if len(b) > 300 {
		return fmt.Sprintf("%q...(%d bytes)", b[:300], len(b))
	}
	return fmt.Sprintf("%q", b)
}

func clipS(s string) string { return clip([]byte(s)) }

func clipA(a []fzf.VerifAction) any {
	if len(a) > 6 {
		return fmt.Sprintf("%v...(%d actions)", a[:6], len(a))
	}
	return a
}

func clipActs(a [][]fzf.VerifAction) any {
	if len(a) == 1 {
		return clipA(a[0])
	}
	return fmt.Sprintf("%d action lists", len(a))
}

// drive writes the request over a pipe in pieces and returns the handler's reply.
func drive(rng *rand.Rand, raw []byte, key string) (string, [][]fzf.VerifAction, int, string, string) {
	client, server := net.Pipe()
	plan := []string{"whole", "bytes", "lines", "random", "close-early"}[rng.Intn(5)]
	if len(raw) > 5000 && plan == "bytes" {
		plan = "random"
	}
	cut := len(raw)
	if plan == "close-early" && len(raw) > 0 {
		cut = rng.Intn(len(raw))
	}
	go func() {
		defer client.Close()
		client.SetWriteDeadline(time.Now().Add(20 * time.Second))
		data := raw[:cut]
		switch plan {
		case "whole", "close-early":
			client.Write(data)
		case "bytes":
			for i := range data {
				if _, err := client.Write(data[i : i+1]); err != nil {
					return
				}
			}
		case "lines":
			for len(data) > 0 {
				i := bytes.Index(data, []byte("\n"))
				if i < 0 {
					i = len(data) - 1
				}
				if _, err := client.Write(data[:i+1]); err != nil {
					return
				}
				data = data[i+1:]
			}
		default:
			for len(data) > 0 {
				n := 1 + rng.Intn(1+rng.Intn(4000))
				if n > len(data) {
					n = len(data)
				}
				if _, err := client.Write(data[:n]); err != nil {
					return
				}
				data = data[n:]
			}
		}
	}()
	type res struct {
		reply string
		acts  [][]fzf.VerifAction
		gets  int
	}
	ch := make(chan res, 1)
	go func() {
		reply, acts, gets := fzf.VerifHandleHTTP(server, key, stateJSON)
		ch <- res{reply, acts, gets}
	}()
	select {
	case x := <-ch:
		server.Close()
		client.Close()
		if plan == "close-early" {
			// a truncated request may be anything; only grammar and key rules apply. Signal via plan name.
		}
		return x.reply, x.acts, x.gets, plan, ""
	case <-time.After(40 * time.Second):
		server.Close()
		client.Close()
		return "", nil, 0, plan, "handler did not return within 40 s (its own read deadline is 10 s)"
	}
}

// listenRule: start-up rule for non-local listeners, address classification.
func listenRule(r *vk.Run) {
	bin, _ := fzfrun.Bin()
	type sp struct {
		addr  string
		local bool
	}
	for _, s := range []sp{{"6266", true}, {":6266", true}, {"localhost:6266", true}, {"127.0.0.1:0", true}, {"0.0.0.0:6266", false}, {"0.0.0.0:0", false}, {"192.0.2.1:6266", false}, {"example.com:80", false}, {"[::]:80", false}, {"::80", false}, {"*:6266", false}} {
		host, _, isLocal, err := fzf.VerifParseListenAddress(s.addr)
		r.Count("listen_spellings", 1)
		r.Distinct("listen " + s.addr)
		wit := map[string]any{"address": s.addr, "host": host, "classified_local": isLocal}
		if err == nil && isLocal && host != "localhost" && host != "127.0.0.1" {
			r.Violate(vk.Violation{Summary: fmt.Sprintf("C16: --listen %q is classified local but binds host %q", s.addr, host), Witness: wit})
		}
		if err == nil && !s.local && isLocal {
			r.Violate(vk.Violation{Summary: fmt.Sprintf("C16: --listen %q is classified local", s.addr), Witness: wit})
		}
		res := fzfrun.Proc(bin, []string{"--listen", s.addr}, []byte("a\n"), 20*time.Second)
		refused := strings.Contains(string(res.Stderr), "FZF_API_KEY is required")
		wit["exit"], wit["stderr"] = res.Code, string(res.Stderr)
		if err != nil {
			if res.Code != 2 {
				r.Violate(vk.Violation{Summary: fmt.Sprintf("C16: invalid --listen %q did not exit 2", s.addr), Witness: wit})
			}
			continue
		}
		if !s.local && !(refused && res.Code == 2) {
			r.Violate(vk.Violation{Summary: fmt.Sprintf("C16: non-local --listen %q without FZF_API_KEY was not refused (exit %d: %s)", s.addr, res.Code, strings.TrimSpace(string(res.Stderr))), Witness: wit})
		}
		if s.local && refused {
			r.Violate(vk.Violation{Summary: fmt.Sprintf("C16: local --listen %q was refused without a key", s.addr), Witness: wit})
		}
	}
}

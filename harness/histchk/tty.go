package histchk

import (
	"fmt"
	"math/rand"
	"os"
	"path/filepath"
	"strings"
	"time"

	"verif/harness/tty"
	"verif/harness/vk"
)

func init() { vk.RegisterWorker("c18tty", workerTty) }

// workerTty: real sessions with --history: navigation through POSTed prev-history / next-history with
// typing in between, ended by accept (match), accept with no match (exit 1, still submitted), or abort.
func workerTty(r *vk.Run, w, n int, args []string) {
	rng := rand.New(rand.NewSource(r.Seed*15887 + int64(w)*173 + 3))
	chains := 6
	if !r.Quick() {
		chains = 200
	}
	per := chains/n + 1
	dir := filepath.Join(vk.Scratch(), fmt.Sprintf("histtty-%d-%d", os.Getpid(), w))
	os.MkdirAll(dir, 0o755)
	defer os.RemoveAll(dir)
	for c := 0; c < per; c++ {
		path := filepath.Join(dir, fmt.Sprintf("h%d", c))
		max := 1 + rng.Intn(4)
		var file []byte
		exists := rng.Intn(3) != 0
		if exists {
			k := rng.Intn(5)
			var ls []string
			for j := 0; j < k; j++ {
				ls = append(ls, words[rng.Intn(len(words))])
			}
			file = []byte(strings.Join(ls, "\n"))
			if k > 0 && rng.Intn(2) == 0 {
				file = append(file, '\n')
			}
			os.WriteFile(path, file, 0o600)
		}
		init := string(file)
		var log []string
		for sess := 0; sess < 1+rng.Intn(3); sess++ {
			// the two options in either order, the size also from $FZF_DEFAULT_OPTS (an earlier source)
			hargs := []string{"--history", path, fmt.Sprintf("--history-size=%d", max), "--no-mouse"}
			var henv []string
			switch rng.Intn(4) {
			case 0:
				hargs = []string{fmt.Sprintf("--history-size=%d", max), "--history", path, "--no-mouse"}
			case 1:
				hargs = []string{"--history-size", fmt.Sprint(max), "--no-history", "--history=" + path, "--no-mouse"}
			case 2:
				hargs = []string{"--history", path, "--no-mouse"}
				henv = []string{fmt.Sprintf("FZF_DEFAULT_OPTS=--history-size %d", max)}
			}
			s, err := tty.Start(tty.StartOpts{Args: hargs, Env: henv, InputCmd: "printf 'foo\\nbar\\nfoo bar\\n'", Cols: 60, Rows: 12})
			if err != nil {
				r.Inconclusive("start: " + err.Error())
				if s != nil {
					s.Close()
				}
				return
			}
			if !exists {
				exists, file = true, []byte{}
			}
			m := LoadModel(file, true, max)
			ms := m.NewSession()
			input := ""
			s.WaitQuiescent(20 * time.Second)
			bad := false
			loopEnds := func() int {
				c := 0
				for _, e := range s.Trace() {
					if e.Kind == "term.loop_end" {
						c++
					}
				}
				return c
			}
			// a raw key is synchronised in logical time: the UI loop must have finished one more iteration
			rawKey := func(key string) bool {
				before := loopEnds()
				s.SendKeys(key)
				deadline := time.Now().Add(20 * time.Second)
				for loopEnds() <= before {
					if _, ex := s.ExitCode(); ex || time.Now().After(deadline) {
						return false
					}
					time.Sleep(3 * time.Millisecond)
				}
				return true
			}
			steps := rng.Intn(8)
			for k := 0; k < steps && !bad; k++ {
				var post string
				raw := false
				switch rng.Intn(8) {
				case 0:
					ch := []string{"a", "o", "z"}[rng.Intn(3)]
					post, input = "put("+ch+")", input+ch
				case 1, 2:
					post, input = "prev-history", ms.Prev(input)
				case 3:
					post, input = "next-history", ms.Next(input)
				case 4:
					// documented: with --history CTRL-P / CTRL-N are remapped to the history actions
					post, raw, input = "C-p", true, ms.Prev(input)
				case 5:
					post, raw, input = "C-n", true, ms.Next(input)
				case 6:
					post = "backward-delete-char"
					if rs := []rune(input); len(rs) > 0 {
						input = string(rs[:len(rs)-1])
					}
				default:
					q := []string{"foo", "ba", "zz top", "o"}[rng.Intn(4)]
					post, input = "change-query("+q+")", q
				}
				if raw {
					if !rawKey(post) {
						r.Inconclusive("history session: raw key " + post + " not consumed")
						s.Close()
						return
					}
					r.Count("tty_raw_keys", 1)
				} else {
					s.Post(post)
				}
				log = append(log, post)
				st, ok := s.WaitQuiescent(20 * time.Second)
				if !ok {
					r.Inconclusive("history session: no quiescence: " + s.LastWait)
					s.Close()
					return
				}
				r.Count("tty_nav_steps", 1)
				if st.Query != input {
					r.Violate(vk.Violation{Summary: fmt.Sprintf("C18: after %q the prompt holds %q, the model says %q (limit %d, initial file %q)", post, st.Query, input, max, init),
						Witness: map[string]any{"initial_file": init, "limit": max, "log": log}})
					bad = true
				}
			}
			if bad {
				s.Close()
				return
			}
			// endings: every way of completing the session submits the query (exit status 0 or 1, or become);
			// every way of leaving it (abort, ctrl-c, a refused accept-non-empty followed by abort) does not
			end := []string{"accept", "Enter", "abort", "C-c", "become(true)", "print-query", "accept-or-print-query", "accept-non-empty"}[rng.Intn(8)]
			submitted := true
			switch end {
			case "Enter", "C-c":
				s.SendKeys(end)
				submitted = end == "Enter"
			case "abort":
				s.Post(end)
				submitted = false
			case "accept-non-empty":
				st0, _ := s.Get(10)
				s.Post(end)
				if st0 == nil {
					r.Inconclusive("history session: GET before the ending failed")
					s.Close()
					return
				}
				if st0.MatchCount == 0 {
					// refused: the session goes on; leaving it now must not record the query
					s.WaitQuiescent(20 * time.Second)
					s.Post("abort")
					submitted = false
					end = "accept-non-empty (refused) + abort"
				}
			default:
				s.Post(end)
			}
			log = append(log, fmt.Sprintf("%s with query %q", end, input))
			rc, exited := s.WaitExit(20 * time.Second)
			s.Close()
			if !exited {
				r.Inconclusive("history session did not end")
				return
			}
			if submitted {
				if nf := m.Submit(input); nf != nil {
					file = nf
				}
			}
			r.Distinct(fmt.Sprintf("tty %s rc%d max%d", end, rc, max))
			r.Count("tty_sessions", 1)
			r.Eval(1)
			disk, _ := os.ReadFile(path)
			if string(disk) != string(file) {
				r.Violate(vk.Violation{Summary: fmt.Sprintf("C18: after the session (%s, exit %d) the history file is %q, the model says %q (limit %d, initial file %q)", end, rc, disk, file, max, init),
					Witness: map[string]any{"initial_file": init, "limit": max, "log": log, "file": string(disk), "expected": string(file)}})
				return
			}
		}
	}
}

// Package walkchk decides C19: the built-in walker lists exactly what the
// walker options describe, compared with a reference walk over os.ReadDir.
package walkchk

import (
	"fmt"
	"math/rand"
	"os"
	"path/filepath"
	"sort"
	"strings"
	"sync"
	"syscall"
	"time"

	fzf "github.com/junegunn/fzf/src"

	"verif/harness/vk"
)

func init() {
	vk.RegisterWorker("c19", worker)
	vk.RegisterWorker("c19priv", workerPriv)
}

func Main(prop, tier string) int {
	r := vk.New("C19", tier)
	r.Rule = "generated trees (depth<=4, <=60 entries: empty dirs, hidden files and dirs, symlinks to files / to sibling directories / broken, names with spaces, newlines, non-ASCII, leading dashes) x all 12 combinations of file/dir (at least one) x follow x hidden x skip lists (none, existing base names, relative paths, path suffixes, leading-separator suffixes, near-miss names) x roots ('.', a sub-directory, two roots): the multiset of paths pushed by the walker must equal the reference walk; distinct = (option combination, skip-list kind, root kind, tree features) signatures"
	r.Assumptions = []string{"trees contain no symlink cycles; directory links point to sibling subtrees", "the root itself may or may not be listed", "under follow a symlinked directory counts as a directory (listed with the separator under dir, not under file)"}
	r.Fanout("c19", vk.NumWorkers(), 90*time.Minute)
	// the scratch directory must be traversable and writable by the unprivileged worker
	os.Chmod(vk.Scratch(), 0o777)
	r.Fanout("c19priv", 1, 5*time.Minute)
	os.Chmod(vk.Scratch(), 0o700)
	r.Floor("walks", 300)
	r.Floor("paths_compared", 3000)
	return r.Finish()
}

var names = []string{"a", "b", "c", "d1", "src", "x y", "é", "日本", ".hid", ".git", "node_modules", "foo", "bar", "xfoo", "-dash", "new\nline", "A", ".h2", "keep", "zz.txt"}

type treeInfo struct {
	dirs, files, links                               int
	hiddenDir, hiddenFile, linkDir, linkFile, broken bool
	allDirs                                          []string // relative paths of real directories
}

func genTree(rng *rand.Rand, root string) *treeInfo {
	ti := &treeInfo{}
	budget := 8 + rng.Intn(50)
	var rec func(dir, rel string, depth int)
	rec = func(dir, rel string, depth int) {
		n := rng.Intn(7)
		used := map[string]bool{}
		for i := 0; i < n && budget > 0; i++ {
			name := names[rng.Intn(len(names))]
			if used[name] {
				continue
			}
			used[name] = true
			budget--
			p := filepath.Join(dir, name)
			rp := name
			if rel != "" {
				rp = rel + "/" + name
			}
			if depth < 4 && rng.Intn(5) < 2 {
				os.Mkdir(p, 0o755)
				ti.dirs++
				ti.allDirs = append(ti.allDirs, rp)
				if name[0] == '.' {
					ti.hiddenDir = true
				}
				rec(p, rp, depth+1)
			} else {
				os.WriteFile(p, []byte("x"), 0o644)
				ti.files++
				if name[0] == '.' {
					ti.hiddenFile = true
				}
			}
		}
	}
	rec(root, "", 0)
	// symlinks: to files, to sibling directories (never to an ancestor: no cycles), broken
	nl := rng.Intn(4)
	var linkParents []string // relative dirs holding a directory link ("" = root)
	for i := 0; i < nl; i++ {
		parent := root
		prel := ""
		if len(ti.allDirs) > 0 && rng.Intn(2) == 0 {
			prel = ti.allDirs[rng.Intn(len(ti.allDirs))]
			parent = filepath.Join(root, prel)
		}
		lname := []string{"ln", "ld", ".hl", "l k"}[rng.Intn(4)]
		lp := filepath.Join(parent, lname)
		if _, err := os.Lstat(lp); err == nil {
			continue
		}
		switch rng.Intn(4) {
		case 0:
			os.Symlink("/nonexistent/target", lp)
			ti.broken = true
		case 1:
			tgt := filepath.Join(vkTmp(root), "outside-file")
			os.WriteFile(tgt, []byte("y"), 0o644)
			os.Symlink(tgt, lp)
			ti.linkFile = true
		default:
			// no cycles: the target is not an ancestor of (or equal to) the link's parent, and no
			// directory link lives anywhere under the target
			var cands []string
			for _, d := range ti.allDirs {
				if prel == d || strings.HasPrefix(prel+"/", d+"/") {
					continue
				}
				holdsLink := false
				for _, lp := range linkParents {
					if lp == d || strings.HasPrefix(lp+"/", d+"/") {
						holdsLink = true
					}
				}
				if holdsLink {
					continue
				}
				cands = append(cands, d)
			}
			if len(cands) == 0 {
				continue
			}
			linkParents = append(linkParents, prel)
			tgt, _ := filepath.Abs(filepath.Join(root, cands[rng.Intn(len(cands))]))
			// the target must not contain directory links itself (added later): checked by the no-cycle walk below
			os.Symlink(tgt, lp)
			ti.linkDir = true
		}
		ti.links++
	}
	return ti
}

func vkTmp(root string) string {
	d := filepath.Join(filepath.Dir(root), "outside")
	os.MkdirAll(d, 0o755)
	return d
}

type opt struct {
	file, dir, hidden, follow bool
}

func (o opt) String() string {
	var p []string
	if o.file {
		p = append(p, "file")
	}
	if o.dir {
		p = append(p, "dir")
	}
	if o.follow {
		p = append(p, "follow")
	}
	if o.hidden {
		p = append(p, "hidden")
	}
	return strings.Join(p, ",")
}

func allOpts() []opt {
	var out []opt
	for m := 0; m < 16; m++ {
		o := opt{m&1 != 0, m&2 != 0, m&4 != 0, m&8 != 0}
		if o.file || o.dir {
			out = append(out, o)
		}
	}
	return out
}

func skipped(rel, base string, ignores []string) bool {
	for _, ig := range ignores {
		if !strings.Contains(ig, "/") {
			if base == ig {
				return true
			}
			continue
		}
		if strings.HasPrefix(ig, "/") {
			if strings.HasSuffix(rel, ig) {
				return true
			}
			continue
		}
		if rel == ig || strings.HasSuffix(rel, "/"+ig) {
			return true
		}
	}
	return false
}

type refEntry struct {
	path       string
	hiddenFile bool // hidden non-directory (F9 class)
	linkDir    bool // followed symlinked directory (F10 class)
}

// refWalk is the reference walk. depth guards against accidental link cycles.
func refWalk(root string, o opt, ignores []string) []refEntry {
	var out []refEntry
	var rec func(dir, rel string, depth int)
	rec = func(dir, rel string, depth int) {
		if depth > 12 {
			return
		}
		ents, err := os.ReadDir(dir)
		if err != nil {
			return
		}
		for _, e := range ents {
			name := e.Name()
			p := filepath.Join(dir, name)
			rp := name
			if rel != "" {
				rp = rel + "/" + name
			}
			isDir := e.IsDir()
			isLinkDir := false
			if e.Type()&os.ModeSymlink != 0 {
				if st, err := os.Stat(p); err == nil && st.IsDir() {
					isLinkDir = true
				}
			}
			if isDir || isLinkDir && o.follow {
				if !o.hidden && strings.HasPrefix(name, ".") {
					continue
				}
				if skipped(rp, name, ignores) {
					continue
				}
				if o.dir {
					out = append(out, refEntry{path: rp + "/", linkDir: isLinkDir})
				}
				rec(p, rp, depth+1)
				continue
			}
			hf := strings.HasPrefix(name, ".")
			if hf && !o.hidden {
				continue
			}
			if o.file {
				out = append(out, refEntry{path: rp})
			}
		}
	}
	// listed paths are relative to the working directory in clean form, however the root was spelled
	rel := filepath.Clean(root)
	if rel == "." {
		rel = ""
	}
	rec(root, rel, 0)
	return out
}

func worker(r *vk.Run, w, n int, args []string) {
	rng := rand.New(rand.NewSource(r.Seed*6151 + int64(w)*37 + 8))
	base := filepath.Join(vk.Scratch(), fmt.Sprintf("walk-%d-%d", os.Getpid(), w))
	defer os.RemoveAll(base)
	trees := 1600
	if !r.Quick() {
		trees = 400000
	}
	per := trees/n + 1
	opts := allOpts()
	for t := 0; t < per; t++ {
		troot := filepath.Join(base, fmt.Sprintf("t%d", t), "tree")
		os.MkdirAll(troot, 0o755)
		ti := genTree(rng, troot)
		if err := os.Chdir(troot); err != nil {
			r.Inconclusive("chdir: " + err.Error())
			continue
		}
		feat := fmt.Sprintf("hd%v hf%v ld%v lf%v br%v", ti.hiddenDir, ti.hiddenFile, ti.linkDir, ti.linkFile, ti.broken)
		for _, o := range opts {
			for k := 0; k < 3; k++ {
				ignores, ikind := genIgnores(rng, ti)
				roots, rkind := []string{"."}, "dot"
				if len(ti.allDirs) > 0 && rng.Intn(4) == 0 {
					d := ti.allDirs[rng.Intn(len(ti.allDirs))]
					if !strings.Contains(d, "/") && !strings.HasPrefix(d, ".") && !strings.HasPrefix(d, "-") {
						roots, rkind = []string{d}, "subdir"
						switch rng.Intn(6) {
						case 0:
							roots, rkind = []string{"./" + d}, "subdir-dotslash"
						case 1:
							roots, rkind = []string{d + "/"}, "subdir-trailing"
						case 2:
							roots, rkind = []string{"././" + d}, "subdir-dotdot"
						case 3:
							// several roots: each is walked once, in the given order
							roots, rkind = []string{d, "."}, "two-roots"
							for _, d2 := range ti.allDirs {
								if d2 != d && !strings.Contains(d2, "/") && !strings.HasPrefix(d2, ".") && !strings.HasPrefix(d2, "-") {
									roots, rkind = []string{d, d2}, "two-roots"
									if rng.Intn(2) == 0 {
										roots, rkind = []string{d2, ".", d}, "three-roots"
									}
									break
								}
							}
						}
					}
				}
				for _, root := range roots {
					c := filepath.Clean(root)
					if c != "." && skipped(c, c, ignores) {
						ignores, ikind = nil, "none" // a root that is itself on the skip list is outside the property
					}
				}
				checkWalk(r, troot, roots, o, ignores, ikind+" "+rkind, feat)
			}
		}
		os.Chdir("/")
		os.RemoveAll(filepath.Join(base, fmt.Sprintf("t%d", t)))
	}
}

func genIgnores(rng *rand.Rand, ti *treeInfo) ([]string, string) {
	if len(ti.allDirs) == 0 || rng.Intn(3) == 0 {
		if rng.Intn(2) == 0 {
			return nil, "none"
		}
		return []string{".git", "node_modules"}, "default"
	}
	d := ti.allDirs[rng.Intn(len(ti.allDirs))]
	parts := strings.Split(d, "/")
	switch rng.Intn(5) {
	case 0:
		return []string{parts[len(parts)-1]}, "base"
	case 1:
		if len(parts) >= 2 {
			return []string{d}, "path"
		}
		return []string{parts[0]}, "base"
	case 2:
		if len(parts) >= 2 {
			return []string{strings.Join(parts[len(parts)-2:], "/")}, "suffix"
		}
		return []string{parts[0]}, "base"
	case 3:
		if len(parts) >= 2 {
			return []string{"/" + strings.Join(parts[len(parts)-2:], "/")}, "sep-suffix"
		}
		return []string{"/" + parts[0]}, "sep-suffix"
	}
	// near miss: a name that is a proper suffix of an existing one
	if len(parts) >= 2 {
		p := parts[len(parts)-2]
		if len(p) > 1 {
			return []string{p[1:] + "/" + parts[len(parts)-1]}, "near-miss"
		}
	}
	return []string{parts[len(parts)-1] + "x"}, "near-miss"
}

func checkWalk(r *vk.Run, troot string, roots []string, o opt, ignores []string, kind, feat string) {
	vk.SetCase(map[string]any{"tree": troot, "opts": o.String(), "ignores": ignores, "roots": roots})
	var mu sync.Mutex
	var got []string
	fzf.VerifReadFiles(roots, o.file, o.dir, o.hidden, o.follow, ignores, func(b []byte) bool {
		mu.Lock()
		got = append(got, string(b))
		mu.Unlock()
		return true
	})
	var ref []refEntry
	for _, root := range roots {
		// a root other than the working directory is itself listed when directories are
		if c := filepath.Clean(root); o.dir && c != "." {
			ref = append(ref, refEntry{path: c + "/"})
		}
		ref = append(ref, refWalk(root, o, ignores)...)
	}
	r.Eval(1)
	r.Count("walks", 1)
	r.Count("paths_compared", int64(len(ref)))
	r.Distinct(o.String() + " / " + kind + " / " + feat)
	gm := map[string]int{}
	for _, g := range got {
		gm[g]++
	}
	wm := map[string]int{}
	for _, e := range ref {
		wm[e.path]++
	}
	var missing, extra []string
	for k, c := range wm {
		for i := gm[k]; i < c; i++ {
			missing = append(missing, k)
		}
	}
	for k, c := range gm {
		for i := wm[k]; i < c; i++ {
			extra = append(extra, k)
		}
	}
	sort.Strings(missing)
	sort.Strings(extra)
	if len(missing) == 0 && len(extra) == 0 {
		if r.Counter("walks")%400 == 7 {
			r.Sample(map[string]any{"walker": o.String(), "skip": ignores, "roots": roots, "paths": trunc(got)})
		}
		return
	}
	// classify against the listed findings
	key := classify(roots, o, ignores, missing, extra)
	r.Violate(vk.Violation{Key: key, Summary: fmt.Sprintf("C19: --walker=%s --walker-skip=%q roots=%q: missing=%q extra=%q", o.String(), ignores, roots, trunc(missing), trunc(extra)),
		Witness: map[string]any{"walker": o.String(), "skip": ignores, "roots": roots, "missing": missing, "extra": extra, "tree_listing": listTree(roots)}})
}

func trunc(xs []string) []string {
	if len(xs) > 12 {
		return append(append([]string{}, xs[:12]...), fmt.Sprintf("...(%d)", len(xs)))
	}
	return xs
}

func listTree(roots []string) []string {
	var out []string
	filepath.Walk(".", func(p string, info os.FileInfo, err error) error {
		if err != nil {
			return nil
		}
		s := p
		if info.Mode()&os.ModeSymlink != 0 {
			t, _ := os.Readlink(p)
			s += " -> " + t
		} else if info.IsDir() {
			s += "/"
		}
		out = append(out, s)
		return nil
	})
	if len(out) > 120 {
		out = out[:120]
	}
	return out
}

// classify recognises the two listed deviations; anything else stays unclassified.
//
//	F9: without `hidden`, hidden non-directories are still listed (only extras, each a hidden
//	    non-directory that the reference would list with `hidden`).
//	F10: under follow, a symlinked directory is listed as `link/` when only `file` is set and
//	    is not listed when only `dir` is set.
func classify(roots []string, o opt, ignores []string, missing, extra []string) string {
	if len(missing) == 0 && len(extra) > 0 && !o.hidden && o.file {
		withHidden := o
		withHidden.hidden = true
		// the reference with hidden, restricted to hidden non-directories reachable through non-hidden dirs
		ok := true
		for _, e := range extra {
			if strings.HasSuffix(e, "/") {
				ok = false
				break
			}
			b := filepath.Base(e)
			if !strings.HasPrefix(b, ".") {
				ok = false
				break
			}
			// no hidden directory component on the way
			for _, c := range strings.Split(filepath.Dir(e), "/") {
				if c != "." && strings.HasPrefix(c, ".") {
					ok = false
				}
			}
		}
		if ok {
			return "F9-hidden-files-listed"
		}
	}
	if o.follow {
		isLinkDir := func(p string) bool {
			p = strings.TrimSuffix(p, "/")
			li, err := os.Lstat(p)
			if err != nil || li.Mode()&os.ModeSymlink == 0 {
				return false
			}
			st, err := os.Stat(p)
			return err == nil && st.IsDir()
		}
		ok := true
		for _, e := range extra {
			// `link/` listed although dir is not set / or hidden file (F9) mixed in
			if strings.HasSuffix(e, "/") && isLinkDir(e) && o.file {
				continue
			}
			if !o.hidden && strings.HasPrefix(filepath.Base(e), ".") && !strings.HasSuffix(e, "/") {
				continue
			}
			ok = false
		}
		for _, m := range missing {
			if strings.HasSuffix(m, "/") && isLinkDir(m) && o.dir {
				continue
			}
			ok = false
		}
		if ok && (len(extra) > 0 || len(missing) > 0) {
			return "F10-symlinked-dir-classified-as-file"
		}
	}
	return ""
}

// workerPriv: unreadable directories. Root can read everything, so this worker
// builds a tree with mode-000 directories and then drops to uid/gid 65534: an
// unreadable directory must be listed exactly once (under dir) and the walk must end.
func workerPriv(r *vk.Run, w, n int, args []string) {
	if w != 0 {
		return
	}
	base := filepath.Join(vk.Scratch(), fmt.Sprintf("walkpriv-%d", os.Getpid()))
	troot := filepath.Join(base, "tree")
	defer func() {
		// cannot chmod back after dropping privileges; the parent removes the scratch directory
	}()
	os.MkdirAll(troot, 0o755)
	for _, d := range []string{"a/sub", "locked/in", "b/locked2/deep", "c"} {
		os.MkdirAll(filepath.Join(troot, d), 0o755)
	}
	for _, f := range []string{"top", "a/f", "a/sub/g", "locked/secret", "locked/in/x", "b/h", "b/locked2/s", "b/locked2/deep/t", "c/i"} {
		os.WriteFile(filepath.Join(troot, f), []byte("x"), 0o644)
	}
	os.Chmod(filepath.Join(troot, "locked"), 0)
	os.Chmod(filepath.Join(troot, "b/locked2"), 0)
	os.Chmod(base, 0o755)
	if err := syscall.Setgroups([]int{}); err != nil {
		r.Inconclusive("setgroups: " + err.Error())
		return
	}
	if err := syscall.Setgid(65534); err != nil {
		r.Inconclusive("setgid: " + err.Error())
		return
	}
	if err := syscall.Setuid(65534); err != nil {
		r.Inconclusive("setuid: " + err.Error())
		return
	}
	if err := os.Chdir(troot); err != nil {
		r.Inconclusive("chdir as nobody: " + err.Error())
		return
	}
	if _, err := os.ReadDir("locked"); err == nil {
		r.Inconclusive("mode-000 directory still readable")
		return
	}
	for _, o := range allOpts() {
		checkWalk(r, troot, []string{"."}, o, nil, "none unreadable", "unreadable-dirs")
		r.Count("unreadable_walks", 1)
	}
}

package livechk

import (
	"bytes"
	"fmt"
	"math/rand"
	"regexp"
	"strings"
	"time"

	"verif/harness/fzfrun"
	"verif/harness/phchk"
	"verif/harness/refq"
	"verif/harness/tty"
	"verif/harness/vk"
)

func init() {
	vk.RegisterWorker("c07filter", workerC07Filter)
	vk.RegisterWorker("c07tty", workerC07Tty)
}

func MainC07(prop, tier string) int {
	r := vk.New("C07", tier)
	r.Rule = "(a) filter mode, process level: records with leading/trailing blanks, empty lines, non-ASCII text, ANSI sequences and (under --read0) embedded newlines x subsets of --with-nth / --delimiter / --ansi / --read0 / --print0 / --print-query / --no-sort / --tac: stdout must be [query] + the matching original records (escape sequences removed under --ansi) each terminated by newline or NUL, exit 0 / 1; the matching set is the reference evaluator applied to the displayed (transformed) text. (b) interactive, in a private tmux server: --print-query / --expect / --multi / --accept-nth / --ansi / --print0 / --select-1 / --exit-0 with selection histories, ended by Enter, an expect key, Escape, print-query, accept-or-print-query, accept-non-empty: stdout bytes and exit status against the documented framing (query line, key line, selections in selection order else current item; 0 / 1 / 130). distinct = (option set, ending, outcome) signatures"
	r.Assumptions = []string{"valid UTF-8 input", "with --with-nth the query is matched against the transformed text, the original record is printed", "--accept-nth prints the selected fields without the trailing delimiter and surrounding blanks of the template result (documented)"}
	if _, err := fzfrun.Bin(); err != nil {
		r.Inconclusive(err.Error())
		r.Floor("filter_runs", 1)
		return r.Finish()
	}
	r.Fanout("c07filter", vk.NumWorkers(), 90*time.Minute)
	r.Fanout("c07tty", vk.NumWorkers(), 90*time.Minute)
	r.Floor("filter_runs", 500)
	r.Floor("interactive_sessions", 20)
	return r.Finish()
}

var recBits = []string{"a", "b", "foo", "bar", " ", "  ", "\t", "é", "日本", ",", "x,y", "1", "A", "-", "ab", "100%", "%s", "%d%%", "\\n"}
var ansiBits = []string{"\x1b[31m", "\x1b[0m", "\x1b[1;32m", "\x1b[m", "\x1b[38;5;100m", "\x0e", "\x0f", "N\x08", "\x0e", "_\x08"}

var ansiRe = regexp.MustCompile("(?:\x1b[\\[()][0-9;:?]*[a-zA-Z@]|\x1b\\][0-9]+[;:][[:print:]]+(?:\x1b\\\\|\x07)|\x1b.|[\x0e\x0f]|.\x08)")

func genRecord(rng *rand.Rand, ansi, multiline bool, k int) string {
	n := rng.Intn(6)
	if rng.Intn(12) == 0 {
		return "" // empty record
	}
	var sb strings.Builder
	for i := 0; i < n; i++ {
		if ansi && rng.Intn(3) == 0 {
			sb.WriteString(ansiBits[rng.Intn(len(ansiBits))])
		}
		sb.WriteString(recBits[rng.Intn(len(recBits))])
		if rng.Intn(2) == 0 {
			sb.WriteString(" ")
		}
	}
	if multiline && rng.Intn(4) == 0 {
		sb.WriteString("\nsecond line")
	}
	fmt.Fprintf(&sb, " #%d", k)
	// trailing blanks belong to the record (and are printed even when --with-nth shows the whole line)
	switch rng.Intn(10) {
	case 0:
		sb.WriteString("  ")
	case 1:
		sb.WriteString("\t")
	case 2:
		if multiline {
			sb.WriteString(" \n")
		}
	}
	return sb.String()
}

type nthSpec struct {
	arg    string
	a, b   int
	single bool
}

var nthSpecs = []nthSpec{{"1", 1, 1, true}, {"2", 2, 2, true}, {"-1", -1, -1, true}, {"2..", 2, 0, false}, {"..2", 0, 2, false}, {"1..2", 1, 2, false}, {"..", 0, 0, false}}

// display is the text fzf searches and shows for a record under --with-nth.
func display(rec string, delim string, n *nthSpec, ansi bool) string {
	s := rec
	if n != nil {
		s = phchk.Sel(phchk.Fields(rec, delim), n.a, n.b, n.single)
		s = strings.TrimRight(s, " \t\n\r\v\f\u0085 ")
	}
	if ansi {
		s = ansiRe.ReplaceAllString(s, "")
	}
	return s
}

func workerC07Filter(r *vk.Run, w, n int, args []string) {
	rng := rand.New(rand.NewSource(r.Seed*3571 + int64(w)*139 + 2))
	bin, _ := fzfrun.Bin()
	total := 16000
	if !r.Quick() {
		total = 800000
	}
	per := total / n
	for i := 0; i < per; i++ {
		ansi := rng.Intn(3) == 0
		read0 := rng.Intn(4) == 0
		print0 := read0 || rng.Intn(5) == 0
		nrec := []int{0, 1, 3, 10, 40, 120}[rng.Intn(6)]
		if rng.Intn(50) == 0 {
			nrec = 9000 // several 64 KiB reads: records straddle read boundaries, buffers are recycled
		}
		var recs []string
		for k := 0; k < nrec; k++ {
			recs = append(recs, genRecord(rng, ansi, read0, k))
		}
		var argv []string
		sigs := []string{}
		if ansi {
			argv = append(argv, "--ansi")
			sigs = append(sigs, "ansi")
		}
		inDelim, outDelim := "\n", "\n"
		if read0 {
			argv = append(argv, "--read0")
			inDelim = "\x00"
			sigs = append(sigs, "read0")
		}
		if print0 {
			argv = append(argv, "--print0")
			outDelim = "\x00"
			sigs = append(sigs, "print0")
		}
		delim := ""
		if rng.Intn(3) == 0 {
			delim = ","
			argv = append(argv, "--delimiter", ",")
			sigs = append(sigs, "delim")
		}
		var nth *nthSpec
		if rng.Intn(2) == 0 {
			nth = &nthSpecs[rng.Intn(len(nthSpecs))]
			argv = append(argv, "--with-nth", nth.arg)
			sigs = append(sigs, "with-nth")
		}
		printQuery := rng.Intn(3) == 0
		if printQuery {
			argv = append(argv, "--print-query")
			sigs = append(sigs, "print-query")
		}
		noSort, tac := rng.Intn(2) == 0, rng.Intn(4) == 0
		if noSort {
			argv = append(argv, "--no-sort")
			sigs = append(sigs, "no-sort")
		}
		if tac {
			argv = append(argv, "--tac")
			sigs = append(sigs, "tac")
		}
		query := []string{"", "", "a", "foo", "'b", "!a", "#1", "é", "^a", "%", "0%"}[rng.Intn(11)]
		argv = append(argv, "--filter", query)
		var stdin bytes.Buffer
		for k, rec := range recs {
			stdin.WriteString(rec)
			if k < len(recs)-1 || rng.Intn(2) == 0 {
				stdin.WriteString(inDelim)
			}
		}
		// the records of the stream: split at the delimiter, a final unterminated record counts,
		// a trailing delimiter does not start another record
		var seen []string
		if rest := stdin.String(); rest != "" {
			seen = strings.Split(strings.TrimSuffix(rest, inDelim), inDelim)
		}
		rq := refq.Parse(query, refq.Opts{Extended: true, Case: "smart"})
		var want []string
		for _, rec := range seen {
			if rq.Matches(display(rec, delim, nth, ansi), nil) {
				o := rec
				if ansi {
					o = ansiRe.ReplaceAllString(rec, "")
				}
				want = append(want, o)
			}
		}
		vk.SetCase(map[string]any{"args": argv})
		res := fzfrun.Proc(bin, argv, stdin.Bytes(), 60*time.Second)
		if res.TimedOut {
			r.Inconclusive("filter run timed out")
			continue
		}
		r.Eval(1)
		r.Count("filter_runs", 1)
		out := string(res.Stdout)
		wit := map[string]any{"args": argv, "stdin": stdin.String(), "stdout": out, "exit": res.Code, "stderr": string(res.Stderr)}
		// framing
		if out != "" && !strings.HasSuffix(out, outDelim) {
			r.Violate(vk.Violation{Summary: fmt.Sprintf("C07: fzf %q: output does not end with the record terminator", argv), Witness: wit})
			continue
		}
		var got []string
		if out != "" {
			got = strings.Split(strings.TrimSuffix(out, outDelim), outDelim)
		}
		if printQuery {
			if len(got) == 0 || got[0] != query {
				r.Violate(vk.Violation{Summary: fmt.Sprintf("C07: fzf %q: --print-query line missing or wrong: %q", argv, head(got, 3)), Witness: wit})
				continue
			}
			got = got[1:]
		}
		r.Distinct(fmt.Sprintf("filter %v q=%q n%d m%d", sigs, query, nrec, min(len(want), 3)))
		missing, extra := diffMulti(got, want)
		if len(missing) > 0 || len(extra) > 0 {
			key := ""
			if nth != nil && noSort && !tac && f1Shape(extra, missing, recs, delim, nth, ansi) {
				key = "F1-streaming-with-nth-prints-transformed"
			}
			wit["missing"], wit["extra"] = head(missing, 6), head(extra, 6)
			r.Violate(vk.Violation{Key: key, Summary: fmt.Sprintf("C07: fzf %q printed records that are not the original input records: missing=%q extra=%q", argv, head(missing, 4), head(extra, 4)), Witness: wit})
			continue
		}
		expRc := 0
		if len(want) == 0 {
			expRc = 1
		}
		if res.Code != expRc {
			r.Violate(vk.Violation{Summary: fmt.Sprintf("C07: fzf %q exit status %d, expected %d (%d records printed)", argv, res.Code, expRc, len(want)), Witness: wit})
		}
		if i%300 == 5 {
			r.Sample(wit)
		}
	}
}

func f1Shape(extra, missing []string, recs []string, delim string, nth *nthSpec, ansi bool) bool {
	// every extra line is the transformed text of some record
	disp := map[string]bool{}
	for _, rec := range recs {
		disp[display(rec, delim, nth, ansi)] = true
	}
	for _, e := range extra {
		if !disp[e] {
			return false
		}
	}
	return len(extra) > 0 && len(extra) == len(missing)
}

func diffMulti(got, want []string) (missing, extra []string) {
	g, w := map[string]int{}, map[string]int{}
	for _, x := range got {
		g[x]++
	}
	for _, x := range want {
		w[x]++
	}
	for k, c := range w {
		for i := g[k]; i < c; i++ {
			missing = append(missing, k)
		}
	}
	for k, c := range g {
		for i := w[k]; i < c; i++ {
			extra = append(extra, k)
		}
	}
	return
}

// ---- interactive

func workerC07Tty(r *vk.Run, w, n int, args []string) {
	rng := rand.New(rand.NewSource(r.Seed*2203 + int64(w)*149 + 6))
	sessions := 480
	if !r.Quick() {
		sessions = 12000
	}
	per := sessions/n + 1
	for i := 0; i < per; i++ {
		sessionC07(r, rng, i)
	}
}

func sessionC07(r *vk.Run, rng *rand.Rand, idx int) {
	ansi := rng.Intn(3) == 0
	read0 := rng.Intn(5) == 0
	print0 := read0 || rng.Intn(5) == 0
	nrec := []int{0, 1, 2, 5, 12}[rng.Intn(5)]
	var recs []string
	for k := 0; k < nrec; k++ {
		rec := genRecord(rng, ansi, read0, k)
		if rec == "" {
			rec = fmt.Sprintf("r #%d", k)
		}
		recs = append(recs, rec)
	}
	var argv []string
	var sigs []string
	add := func(sig string, a ...string) {
		argv = append(argv, a...)
		sigs = append(sigs, sig)
	}
	argv = append(argv, "--no-mouse")
	if ansi {
		add("ansi", "--ansi")
	}
	inDelim, outDelim := "\n", "\n"
	if read0 {
		add("read0", "--read0")
		inDelim = "\x00"
	}
	if print0 {
		add("print0", "--print0")
		outDelim = "\x00"
	}
	multi := rng.Intn(2) == 0
	if multi {
		add("multi", "--multi")
	}
	printQuery := rng.Intn(2) == 0
	if printQuery {
		add("print-query", "--print-query")
	}
	expect := rng.Intn(3) == 0
	if expect {
		add("expect", "--expect", "ctrl-x,f2")
	}
	delim := ""
	if rng.Intn(3) == 0 {
		delim = ","
		add("delim", "--delimiter", ",")
	}
	var accNth *nthSpec
	if rng.Intn(3) == 0 {
		accNth = &nthSpecs[rng.Intn(len(nthSpecs))]
		add("accept-nth", "--accept-nth", accNth.arg)
	}
	var withNth *nthSpec
	if rng.Intn(4) == 0 {
		withNth = &nthSpecs[rng.Intn(len(nthSpecs))]
		add("with-nth", "--with-nth", withNth.arg)
	}
	short := ""
	switch rng.Intn(8) {
	case 0:
		short = "select-1"
		add(short, "--select-1")
	case 1:
		short = "exit-0"
		add(short, "--exit-0")
	}
	query := ""
	if rng.Intn(3) == 0 {
		query = []string{"#0", "zzzz", "#1", "#"}[rng.Intn(4)]
		argv = append(argv, "--query", query)
		sigs = append(sigs, "query")
	}
	var stdin bytes.Buffer
	for _, rec := range recs {
		stdin.WriteString(rec)
		stdin.WriteString(inDelim)
	}
	// what matches the initial query (on the displayed text)
	rq := refq.Parse(query, refq.Opts{Extended: true, Case: "smart"})
	var matchIdx []int
	for i, rec := range recs {
		if rq.Matches(display(rec, delim, withNth, ansi), nil) {
			matchIdx = append(matchIdx, i)
		}
	}
	outOf := func(i int) string {
		rec := recs[i]
		if ansi {
			rec = ansiRe.ReplaceAllString(rec, "")
		}
		if accNth != nil {
			s := phchk.Sel(phchk.Fields(rec, delim), accNth.a, accNth.b, accNth.single)
			if delim != "" {
				s = strings.TrimSuffix(s, delim)
			}
			return strings.TrimRight(s, " \t\n\r\v\f\u0085 ")
		}
		return rec
	}
	s, err := tty.Start(tty.StartOpts{Args: argv, Input: stdin.Bytes(), Cols: 90, Rows: 20, Seed: r.Seed})
	// --select-1 / --exit-0 may finish before the server ever answers
	shortCircuit := short == "select-1" && len(matchIdx) == 1 || short == "exit-0" && len(matchIdx) == 0
	if s != nil {
		defer s.Close()
	}
	wit := map[string]any{"args": argv, "records": recs, "query": query}
	var expOut []string
	expRc := 0
	ending := "short-circuit"
	var hist []string
	if shortCircuit {
		if s == nil {
			r.Inconclusive("start failed: " + fmt.Sprint(err))
			return
		}
		if printQuery {
			expOut = append(expOut, query)
		}
		if expect {
			expOut = append(expOut, "") // no key was pressed: empty key line
		}
		if short == "select-1" {
			expOut = append(expOut, outOf(matchIdx[0]))
		} else {
			expRc = 1
		}
	} else {
		if err != nil {
			r.Inconclusive("start: " + err.Error())
			return
		}
		st, ok := s.WaitQuiescent(30 * time.Second)
		if !ok {
			r.Inconclusive("no initial quiescence: " + s.LastWait)
			return
		}
		// a short selection history
		var selOrder []int
		if multi && len(matchIdx) > 0 {
			for k := 0; k < rng.Intn(5); k++ {
				act := []string{"toggle+down", "toggle+up", "down", "up", "toggle"}[rng.Intn(5)]
				cur := -1
				if st.Current != nil {
					cur = st.Current.Index
				}
				if strings.HasPrefix(act, "toggle") && cur >= 0 {
					found := false
					for i, x := range selOrder {
						if x == cur {
							selOrder = append(selOrder[:i:i], selOrder[i+1:]...)
							found = true
							break
						}
					}
					if !found {
						selOrder = append(selOrder, cur)
					}
				}
				s.Post(act)
				hist = append(hist, act)
				if !s.WaitConsumed(20 * time.Second) {
					r.Inconclusive("batch not consumed")
					return
				}
				if st2, err := s.Get(100); err == nil {
					st = st2
				}
			}
		}
		// sometimes the query is then changed to one that matches nothing: a selection survives, there
		// is no current line
		if rng.Intn(4) == 0 {
			query = "zzzz-no-such"
			s.Post("change-query(" + query + ")")
			hist = append(hist, "change-query("+query+")")
			st2, ok := s.WaitQuiescent(30 * time.Second)
			if !ok {
				r.Inconclusive("no quiescence after the query change: " + s.LastWait)
				return
			}
			st = st2
			wit["query"] = query
		}
		cur := -1
		if st.Current != nil && st.MatchCount > 0 {
			cur = st.Current.Index
		}
		items := func() []string {
			var o []string
			if len(selOrder) > 0 {
				for _, i := range selOrder {
					o = append(o, outOf(i))
				}
			} else if cur >= 0 {
				o = append(o, outOf(cur))
			}
			return o
		}
		endings := []string{"enter", "enter", "esc", "print-query", "accept-or-print-query", "accept-non-empty", "abort"}
		if expect {
			endings = append(endings, "ctrl-x", "f2", "ctrl-x")
		}
		ending = endings[rng.Intn(len(endings))]
		switch ending {
		case "enter", "ctrl-x", "f2":
			key := map[string]string{"enter": "Enter", "ctrl-x": "C-x", "f2": "F2"}[ending]
			if printQuery {
				expOut = append(expOut, query)
			}
			if expect {
				if ending == "enter" {
					expOut = append(expOut, "")
				} else {
					expOut = append(expOut, ending)
				}
			}
			it := items()
			expOut = append(expOut, it...)
			if len(it) == 0 {
				expRc = 1
			}
			s.SendKeys(key)
		case "esc":
			expRc = 130
			s.SendKeys("Escape")
		case "abort":
			expRc = 130
			s.Post("abort")
		case "print-query":
			expOut = []string{query}
			s.Post("print-query")
		case "accept-or-print-query":
			it := items()
			if len(it) > 0 {
				if printQuery {
					expOut = append(expOut, query)
				}
				if expect {
					expOut = append(expOut, "")
				}
				expOut = append(expOut, it...)
			} else {
				expOut = []string{query}
			}
			s.Post("accept-or-print-query")
		case "accept-non-empty":
			it := items()
			if len(it) == 0 && nrec > 0 {
				// nothing to accept: the action is ignored; end the session with Escape
				s.Post("accept-non-empty")
				s.WaitConsumed(10 * time.Second)
				expRc = 130
				s.SendKeys("Escape")
				ending = "accept-non-empty(ignored)+esc"
			} else {
				if printQuery {
					expOut = append(expOut, query)
				}
				if expect {
					expOut = append(expOut, "")
				}
				expOut = append(expOut, it...)
				if len(it) == 0 {
					expRc = 1
				}
				s.Post("accept-non-empty")
			}
		}
		hist = append(hist, ending)
	}
	rc, exited := s.WaitExit(30 * time.Second)
	if !exited {
		// an ending that was consumed (hook trace) but did not end the session although it must
		if (ending == "accept-non-empty" || ending == "accept-or-print-query" || ending == "print-query" || ending == "abort") && s.WaitConsumed(10*time.Second) {
			if _, ex := s.ExitCode(); !ex {
				wit["history"], wit["ending"] = hist, ending
				r.Violate(vk.Violation{Summary: fmt.Sprintf("C07: fzf %q: %s was taken by the interface but did not end the session (expected output %q)", argv, ending, expOut), Witness: wit})
				return
			}
		}
		r.Inconclusive(fmt.Sprintf("session did not end after %q", ending))
		return
	}
	r.Eval(1)
	r.Count("interactive_sessions", 1)
	r.Distinct(fmt.Sprintf("tty %v end=%s rc%d", sigs, ending, expRc))
	want := ""
	for _, l := range expOut {
		want += l + outDelim
	}
	got := string(s.Stdout())
	wit["history"], wit["ending"], wit["stdout"], wit["expected_stdout"], wit["exit"], wit["expected_exit"], wit["stderr"] = hist, ending, got, want, rc, expRc, s.Stderr()
	if got != want || rc != expRc {
		r.Violate(vk.Violation{Summary: fmt.Sprintf("C07: fzf %q ended by %s: stdout %q exit %d, documented framing gives %q exit %d", argv, ending, got, rc, want, expRc), Witness: wit})
		return
	}
	if idx == 0 {
		r.Sample(wit)
	}
}

package filterchk

import (
	"fmt"
	"math/rand"
	"reflect"
	"time"

	fzf "github.com/junegunn/fzf/src"
	"github.com/junegunn/fzf/src/algo"
	"github.com/junegunn/fzf/src/util"

	"verif/harness/vk"
)

// Pattern-level purity (C05): whether a line matches a whole query (AND / OR groups, negation, every
// term kind, --nth), its rank points and its match ranges must not depend on whether positions were
// requested, on the scratch slab's history, or on the item having been matched before.

func init() { vk.RegisterWorker("c05pat", workerC05Pat) }

func C05PatternPhase(r *vk.Run) {
	r.Fanout("c05pat", vk.NumWorkers(), 30*time.Minute)
	r.Floor("pattern_pairs", 2000)
}

func workerC05Pat(r *vk.Run, w, n int, args []string) {
	rng := rand.New(rand.NewSource(r.Seed*52361 + int64(w)*29 + 4))
	g := NewGen(rng, w)
	scheme := g.Scheme
	if scheme == "" {
		scheme = "default"
	}
	algo.Init(scheme)
	fzf.VerifSetSortCriteria([]string{"score", "length"})
	cases := 24000
	if !r.Quick() {
		cases = 1200000
	}
	per := cases / n
	dirty := util.MakeSlab(100*1024, 2048)
	for i := 0; i < per; i++ {
		lines := g.Lines(1+rng.Intn(6), 14)
		q, qsig := g.QueryFor(lines)
		fuzzy := rng.Intn(3) != 0
		algoN := rng.Intn(2)
		caseMode := []fzf.Case{fzf.CaseSmart, fzf.CaseIgnore, fzf.CaseRespect}[rng.Intn(3)]
		normalize := rng.Intn(3) != 0
		forward := rng.Intn(3) != 0
		var nth []fzf.Range
		nthS := ""
		if rng.Intn(4) == 0 {
			nthS = []string{"1", "2", "2..", "-1", "..2"}[rng.Intn(5)]
			nth, _ = fzf.VerifSplitNth(nthS)
		}
		delim := fzf.Delimiter{}
		p1 := fzf.VerifBuildPattern(fuzzy, algoN, true, caseMode, normalize, forward, false, nth, delim, q)
		p2 := fzf.VerifBuildPattern(fuzzy, algoN, true, caseMode, normalize, forward, true, nth, delim, q)
		for li, l := range lines {
			a := fzf.VerifMatchItem(p1, fzf.VerifNewItem(l, int32(li)), false, dirty)
			b := fzf.VerifMatchItem(p2, fzf.VerifNewItem(l, int32(li)), true, nil)
			shared := fzf.VerifNewItem(l, int32(li))
			fzf.VerifMatchItem(p2, shared, true, dirty)
			c := fzf.VerifMatchItem(p1, shared, false, util.MakeSlab(100*1024, 2048))
			r.Eval(1)
			r.Count("pattern_pairs", 2)
			r.Distinct(fmt.Sprintf("pat %s fuzzy%v v%d nth%q m%v", qsig, fuzzy, 2-algoN, nthS, a.Matched))
			wit := map[string]any{"line": l, "query": q, "fuzzy": fuzzy, "algo": 2 - algoN, "case": int(caseMode), "normalize": normalize, "forward": forward, "nth": nthS}
			cmp := func(x, y fzf.VerifMatch, what string, ranges bool) bool {
				why := ""
				switch {
				case x.Matched != y.Matched:
					why = fmt.Sprintf("match %v vs %v", x.Matched, y.Matched)
				case x.Points != y.Points:
					why = fmt.Sprintf("rank points %v vs %v", x.Points, y.Points)
				case ranges && !reflect.DeepEqual(x.Offsets, y.Offsets):
					why = fmt.Sprintf("match ranges %v vs %v", x.Offsets, y.Offsets)
				}
				if why == "" {
					return true
				}
				wit["difference"] = why
				r.Violate(vk.Violation{Summary: fmt.Sprintf("C05: the result for line %q and query %q depends on %s: %s (fuzzy=%v algo=v%d nth=%q)", l, q, what, why, fuzzy, 2-algoN, nthS), Witness: wit})
				return false
			}
			// (V2's start of a fuzzy range is a documented approximation without positions: F12, decided at the algo level)
			// (a quoted term in exact mode is a fuzzy term as well, so only the V1 setting makes every range exact)
			ranges := algoN == 1
			if !cmp(a, b, "whether positions were requested (and on the slab)", ranges) {
				return
			}
			if !cmp(a, c, "the item having been matched before / the slab's history", true) {
				return
			}
		}
	}
}

// Package readchk decides C06: every input record becomes exactly one item,
// in order, unaltered, however the stream is cut into reads.
package readchk

import (
	"bytes"
	"fmt"
	"io"
	"math/rand"
	"os"
	"os/exec"
	"strings"
	"time"

	fzf "github.com/junegunn/fzf/src"

	"verif/harness/fzfrun"
	"verif/harness/vk"
)

func init() {
	vk.RegisterWorker("c06feed", workerFeed)
	vk.RegisterWorker("c06proc", workerProc)
}

func Main(prop, tier string) int {
	r := vk.New("C06", tier)
	r.Rule = "(a) Reader.feed driven through an io.Reader that delivers OS-like read results ((n>0,nil)* then (0,EOF)) with controlled cuts: streams built from record-length classes {0,1,2,65535,65536,65537,131071,131072,131073,300000,random}, both delimiters, with/without a final unterminated record; cut plans: every split point of short streams (exhaustive), 1-byte reads, cuts right before/on/after each delimiter, full 64 KiB reads, random; records handed to the pusher are compared with split(stream) at push time AND re-read after the last read (aliasing of reused buffers). (b) the fzf binary: stdin written through a pipe with controlled write sizes and pauses, stdout of `fzf -f '' [--read0 --print0] [--no-sort] [--tail N] [--header-lines N]` compared with the reference records. (c) interactive fzf (private tmux server, --listen) reading from a FIFO the harness keeps open: records delivered in bursts of 1..1000 (including exact multiples of the chunk size), optional --tail / --header-lines / identity --with-nth, query changes in between; after each burst, once the hook trace shows a coordinator snapshot containing every delivered record and the search issued for it displayed, GET / must list exactly the expected items (text, ordinal, last N under --tail) - while the stream is open, after it ends, and select-all+accept must print the original records byte for byte. distinct = (length-class multiset, delimiter, cut plan, final-record form | option set) signatures"
	r.Assumptions = []string{"only read results an *os.File can produce are generated: (n>0, nil) any number of times, then (0, io.EOF)", "process level uses valid UTF-8 records (filter mode re-encodes invalid bytes)", "item ordinals are observed as the index field of GET / in phase (c)", "phase (c) decides on logical time (trace events), a 30 s watchdog yields inconclusive"}
	if _, err := fzfrun.Bin(); err != nil {
		r.Inconclusive(err.Error())
		r.Floor("feed_streams", 1)
		return r.Finish()
	}
	n := vk.NumWorkers()
	r.Fanout("c06feed", n, 90*time.Minute)
	r.Fanout("c06proc", n, 90*time.Minute)
	r.Fanout("c06live", n, 90*time.Minute)
	r.Floor("feed_streams", 500)
	r.Floor("records_checked", 5000)
	r.Floor("proc_runs", 50)
	r.Floor("live_comparisons", 100)
	r.Floor("live_sessions", 10)
	return r.Finish()
}

// refSplit: the documented record structure.
func refSplit(stream []byte, delim byte) [][]byte {
	var out [][]byte
	for len(stream) > 0 {
		i := bytes.IndexByte(stream, delim)
		if i < 0 {
			out = append(out, stream)
			break
		}
		out = append(out, stream[:i])
		stream = stream[i+1:]
	}
	return out
}

// cutReader delivers the stream in the planned pieces (each at most the size asked for).
type cutReader struct {
	data []byte
	cuts []int // piece lengths; after they run out, deliver whatever is asked
	pos  int
	k    int
	max  int // largest read observed
}

func (c *cutReader) Read(p []byte) (int, error) {
	if c.pos >= len(c.data) {
		return 0, io.EOF
	}
	n := len(p)
	if c.k < len(c.cuts) {
		if c.cuts[c.k] < n {
			n = c.cuts[c.k]
		}
	}
	if n > len(c.data)-c.pos {
		n = len(c.data) - c.pos
	}
	if n <= 0 {
		n = 1
	}
	copy(p, c.data[c.pos:c.pos+n])
	c.pos += n
	if c.k < len(c.cuts) {
		c.cuts[c.k] -= n
		if c.cuts[c.k] <= 0 {
			c.k++
		}
	}
	return n, nil
}

var lenClasses = []int{0, 0, 1, 1, 2, 3, 7, 40, 65535, 65536, 65537, 131071, 131072, 131073, 300000}

func genStream(rng *rand.Rand, delim byte, big bool) ([]byte, string) {
	var sb bytes.Buffer
	nrec := 1 + rng.Intn(8)
	if rng.Intn(4) == 0 {
		nrec = 20 + rng.Intn(300)
	}
	sig := ""
	for i := 0; i < nrec; i++ {
		var L int
		if big && rng.Intn(4) == 0 {
			L = lenClasses[rng.Intn(len(lenClasses))]
		} else if rng.Intn(3) == 0 {
			L = rng.Intn(200)
		} else {
			L = lenClasses[rng.Intn(8)]
		}
		if L >= 65535 {
			sig += "L"
		} else if L == 0 {
			sig += "0"
		} else {
			sig += "s"
		}
		for j := 0; j < L; j++ {
			// content derived from (record, offset): aliasing shows as foreign content
			b := byte('a' + (i*7+j)%26)
			if j%17 == 0 {
				b = byte('A' + i%26)
			}
			if b == delim {
				b = 'x'
			}
			sb.WriteByte(b)
		}
		last := i == nrec-1
		if !last || rng.Intn(2) == 0 {
			sb.WriteByte(delim)
			if last {
				sig += "T"
			}
		}
	}
	if len(sig) > 12 {
		sig = sig[:6] + fmt.Sprintf("..%d", len(sig))
	}
	return sb.Bytes(), sig
}

func genCuts(rng *rand.Rand, data []byte, delim byte) ([]int, string) {
	switch rng.Intn(7) {
	case 0:
		return nil, "whole"
	case 1: // 1-byte reads (short streams only, otherwise the first 5000 bytes)
		n := len(data)
		if n > 5000 {
			n = 5000
		}
		c := make([]int, n)
		for i := range c {
			c[i] = 1
		}
		return c, "1-byte"
	case 2, 3: // cut right before / on / after each delimiter
		var c []int
		off := rng.Intn(3) - 1 // -1: before, 0: on (delimiter ends the piece), +1: after
		prev := 0
		for i, b := range data {
			if b == delim {
				p := i + 1 + off
				if p > prev && p <= len(data) {
					c = append(c, p-prev)
					prev = p
				}
			}
			if len(c) > 4000 {
				break
			}
		}
		return c, fmt.Sprintf("delim%+d", off)
	case 4: // full buffer reads then small
		return []int{65536, 65536, 1, 65535, 1, 2, 65536}, "buffer-size"
	case 5: // slab rotation: 128 KiB boundary straddled
		return []int{65536, 65535, 2, 65536, 3}, "slab-edge"
	}
	var c []int
	total := 0
	for total < len(data) && len(c) < 3000 {
		n := 1 + rng.Intn(1+rng.Intn(70000))
		c = append(c, n)
		total += n
	}
	return c, "random"
}

func workerFeed(r *vk.Run, w, n int, args []string) {
	rng := rand.New(rand.NewSource(r.Seed*31337 + int64(w)*71 + 9))
	total := 120000
	if !r.Quick() {
		total = 1600000
	}
	per := total / n
	// exhaustive: every split point (two cuts) of a family of short streams
	if w == 0 {
		for _, s := range []string{"", "\n", "a", "a\n", "\na", "a\nb", "a\nb\n", "\n\n", "ab\n\ncd", "a\n\n\nb\n", "\n\na\n\n"} {
			for _, delim := range []byte{'\n', 0} {
				data := bytes.ReplaceAll([]byte(s), []byte("\n"), []byte{delim})
				for i := 0; i <= len(data); i++ {
					for j := i; j <= len(data); j++ {
						checkFeed(r, data, delim, []int{i, j - i, len(data)}, "exhaustive-2cuts", "short")
					}
				}
			}
		}
	}
	for i := 0; i < per; i++ {
		delim := byte('\n')
		if rng.Intn(3) == 0 {
			delim = 0
		}
		data, ssig := genStream(rng, delim, i%6 == 0)
		cuts, csig := genCuts(rng, data, delim)
		checkFeed(r, data, delim, cuts, csig, ssig)
	}
}

func checkFeed(r *vk.Run, data []byte, delim byte, cuts []int, csig, ssig string) {
	var cl []int
	for _, c := range cuts {
		if c > 0 {
			cl = append(cl, c)
		}
	}
	vk.SetCase(map[string]any{"stream_len": len(data), "delim": delim, "cuts": csig})
	src := &cutReader{data: data, cuts: append([]int(nil), cl...)}
	var held [][]byte   // the very slices handed to the pusher (not copied)
	var atPush [][]byte // copies taken at push time
	fzf.VerifFeed(src, delim == 0, func(b []byte) bool {
		held = append(held, b)
		atPush = append(atPush, append([]byte(nil), b...))
		return true
	})
	want := refSplit(data, delim)
	r.Eval(1)
	r.Count("feed_streams", 1)
	r.Count("records_checked", int64(len(want)))
	r.Distinct(fmt.Sprintf("feed d%d %s %s", delim, csig, ssig))
	wit := func(extra map[string]any) map[string]any {
		m := map[string]any{"stream_len": len(data), "delimiter": delim, "cut_plan": csig, "cuts_head": head(cl, 20), "records_expected": len(want), "records_pushed": len(held)}
		if len(data) <= 400 {
			m["stream"] = string(data)
		}
		for k, v := range extra {
			m[k] = v
		}
		return m
	}
	if len(atPush) != len(want) {
		r.Violate(vk.Violation{Summary: fmt.Sprintf("C06: %d records pushed for a stream of %d records (len %d, delim %d, cuts %s)", len(atPush), len(want), len(data), delim, csig), Witness: wit(nil)})
		return
	}
	for i := range want {
		if !bytes.Equal(atPush[i], want[i]) {
			r.Violate(vk.Violation{Summary: fmt.Sprintf("C06: record %d differs at push time (len %d vs %d; stream len %d, delim %d, cuts %s)", i, len(atPush[i]), len(want[i]), len(data), delim, csig),
				Witness: wit(map[string]any{"record": i, "got_head": clip(atPush[i]), "want_head": clip(want[i])})})
			return
		}
	}
	for i := range want {
		if !bytes.Equal(held[i], want[i]) {
			r.Violate(vk.Violation{Summary: fmt.Sprintf("C06: record %d changed after it was pushed (buffer reuse); stream len %d, delim %d, cuts %s", i, len(data), delim, csig),
				Witness: wit(map[string]any{"record": i, "now_head": clip(held[i]), "want_head": clip(want[i])})})
			return
		}
	}
	if r.Counter("feed_streams")%4000 == 5 {
		r.Sample(wit(nil))
	}
}

func head(a []int, n int) []int {
	if len(a) > n {
		return a[:n]
	}
	return a
}

func clip(b []byte) string {
	if len(b) > 80 {
		return fmt.Sprintf("%q...(%d)", b[:80], len(b))
	}
	return fmt.Sprintf("%q", b)
}

// ---- process level ---------------------------------------------------------------

var utfBits = []string{"a", "b", " ", "é", "日本", "x y", "\t", "Z"}

func workerProc(r *vk.Run, w, n int, args []string) {
	rng := rand.New(rand.NewSource(r.Seed*2741 + int64(w)*19 + 4))
	bin, _ := fzfrun.Bin()
	total := 2400
	if !r.Quick() {
		total = 16000
	}
	per := total / n
	for i := 0; i < per; i++ {
		read0 := rng.Intn(3) == 0
		delim := byte('\n')
		if read0 {
			delim = 0
		}
		// records
		nrec := []int{0, 1, 2, 5, 99, 100, 101, 250, 1000}[rng.Intn(9)]
		var recs []string
		for k := 0; k < nrec; k++ {
			var sb strings.Builder
			L := rng.Intn(6)
			if rng.Intn(10) == 0 {
				L = 0
			}
			if i%16 == 3 && k == nrec/2 {
				L = 70000 // longer than the read buffer
			}
			for j := 0; j < L; j++ {
				sb.WriteString(utfBits[rng.Intn(len(utfBits))])
			}
			if read0 && rng.Intn(4) == 0 {
				sb.WriteString("\nline2")
			}
			fmt.Fprintf(&sb, "#%d", k) // unique
			if rng.Intn(8) == 0 {
				sb.Reset() // empty record
			}
			recs = append(recs, sb.String())
		}
		var stream bytes.Buffer
		for k, rec := range recs {
			stream.WriteString(rec)
			if k < len(recs)-1 || rng.Intn(2) == 0 {
				stream.WriteByte(delim)
			}
		}
		// an unterminated empty last record does not exist
		want := []string{}
		for _, b := range refSplit(stream.Bytes(), delim) {
			want = append(want, string(b))
		}
		argv := []string{"-f", ""}
		if read0 {
			argv = append(argv, "--read0", "--print0")
		}
		opt := ""
		streaming := false
		if rng.Intn(2) == 0 {
			argv = append(argv, "--no-sort")
			streaming = true
			opt += "nosort "
		}
		hl, tail := 0, 0
		if rng.Intn(3) == 0 {
			hl = rng.Intn(4)
			if rng.Intn(4) == 0 {
				hl = len(want) + rng.Intn(2)
			}
			argv = append(argv, fmt.Sprintf("--header-lines=%d", hl))
			opt += "header "
		}
		if rng.Intn(3) == 0 {
			tail = 1 + rng.Intn(len(want)+2)
			argv = append(argv, fmt.Sprintf("--tail=%d", tail))
			opt += "tail "
		}
		exp := want
		if hl > 0 {
			if hl >= len(exp) {
				exp = nil
			} else {
				exp = exp[hl:]
			}
		}
		if tail > 0 && len(exp) > tail {
			exp = exp[len(exp)-tail:]
		}
		// writer plan
		plan := []string{"whole", "bytes", "records", "random", "paused"}[rng.Intn(5)]
		got, code, stderr, err := runWithWriter(bin, argv, stream.Bytes(), delim, plan, rng)
		if err != nil {
			r.Inconclusive("process run: " + err.Error())
			continue
		}
		r.Eval(1)
		r.Count("proc_runs", 1)
		r.Count("records_checked", int64(len(want)))
		r.Distinct(fmt.Sprintf("proc read0=%v %s%s n%d", read0, opt, plan, nrec))
		outDelim := "\n"
		if read0 {
			outDelim = "\x00"
		}
		var gotRecs []string
		if len(got) > 0 {
			gotRecs = strings.Split(strings.TrimSuffix(string(got), outDelim), outDelim)
		}
		wit := map[string]any{"args": argv, "records": len(want), "write_plan": plan, "exit": code, "stderr": clip(stderr), "expected_count": len(exp), "got_count": len(gotRecs)}
		if len(want) <= 12 && stream.Len() < 2000 {
			wit["stdin"] = stream.String()
			wit["stdout"] = string(got)
		}
		same := len(gotRecs) == len(exp)
		firstDiff := -1
		for k := 0; same && k < len(exp); k++ {
			if gotRecs[k] != exp[k] {
				same = false
				firstDiff = k
			}
		}
		if !same {
			key := ""
			if tail > 0 && streaming && hl == 0 && len(gotRecs) == len(want) {
				key = "F5-tail-ignored-by-streaming-filter"
			}
			if firstDiff >= 0 {
				wit["first_difference"] = map[string]any{"index": firstDiff, "got": clip([]byte(gotRecs[firstDiff])), "want": clip([]byte(exp[firstDiff]))}
			}
			r.Violate(vk.Violation{Key: key, Summary: fmt.Sprintf("C06: fzf %q over %d records (written %s): %d records printed, %d expected", argv, len(want), plan, len(gotRecs), len(exp)), Witness: wit})
			continue
		}
		if i%40 == 1 {
			r.Sample(wit)
		}
	}
}

func runWithWriter(bin string, argv []string, data []byte, delim byte, plan string, rng *rand.Rand) ([]byte, int, []byte, error) {
	cmd := exec.Command(bin, argv...)
	cmd.Env = fzfrun.CleanEnv()
	pr, pw, err := os.Pipe()
	if err != nil {
		return nil, 0, nil, err
	}
	cmd.Stdin = pr
	var so, se bytes.Buffer
	cmd.Stdout, cmd.Stderr = &so, &se
	if err := cmd.Start(); err != nil {
		pr.Close()
		pw.Close()
		return nil, 0, nil, err
	}
	pr.Close()
	go func() {
		defer pw.Close()
		switch plan {
		case "whole":
			pw.Write(data)
		case "bytes":
			n := len(data)
			lim := 3000
			for i := 0; i < n; i++ {
				if i >= lim {
					pw.Write(data[i:])
					break
				}
				pw.Write(data[i : i+1])
			}
		case "records":
			rest := data
			for len(rest) > 0 {
				i := bytes.IndexByte(rest, delim)
				if i < 0 {
					pw.Write(rest)
					break
				}
				pw.Write(rest[:i+1])
				rest = rest[i+1:]
			}
		default:
			rest := data
			k := 0
			for len(rest) > 0 {
				n := 1 + rng.Intn(1+rng.Intn(9000))
				if n > len(rest) {
					n = len(rest)
				}
				pw.Write(rest[:n])
				rest = rest[n:]
				k++
				if plan == "paused" && k%3 == 0 && k < 30 {
					time.Sleep(2 * time.Millisecond)
				}
			}
		}
	}()
	done := make(chan error, 1)
	go func() { done <- cmd.Wait() }()
	select {
	case err := <-done:
		code := 0
		if ee, ok := err.(*exec.ExitError); ok {
			code = ee.ExitCode()
		}
		return so.Bytes(), code, se.Bytes(), nil
	case <-time.After(120 * time.Second):
		cmd.Process.Kill()
		<-done
		return nil, 0, nil, fmt.Errorf("watchdog: fzf %q did not finish", argv)
	}
}

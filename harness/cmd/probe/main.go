package main

import (
	"fmt"
	"os"
	"time"

	"verif/harness/tty"
)

func main() {
	os.Setenv("VERIF_SCRATCH", "/tmp/probe-scr")
	os.MkdirAll("/tmp/probe-scr", 0o755)
	os.WriteFile("/tmp/probe-scr/alt", []byte("R1 foo\nR2 bar\nR3 foo bar\n"), 0o644)
	bad := 0
	for trial := 0; trial < 30; trial++ {
		s, err := tty.Start(tty.StartOpts{InputCmd: "seq 5000", Args: []string{"--tail=250", "--no-sort"}, Cols: 100, Rows: 30})
		if err != nil {
			fmt.Println("start:", err)
			return
		}
		s.WaitQuiescent(10 * time.Second)
		s.Post("execute-silent(sleep 0.15)")
		s.Post("put( )")
		s.Post("reload(cat /tmp/probe-scr/alt)")
		s.Post("unix-word-rubout")
		s.Post("put(foo)")
		st, ok := s.WaitQuiescent(3 * time.Second)
		if !ok {
			bad++
			st2, _ := s.Get(10)
			fmt.Println("trial", trial, "stuck:", s.LastWait, st2.TotalCount, st2.MatchCount, st2.Reading)
			for _, e := range s.Trace() {
				if e.Kind != "scan.chunk" && e.Kind != "scan.count" {
					fmt.Printf("  %d %s(%d,%d,%s)\n", e.TUs/1000, e.Kind, e.A, e.B, e.S)
				}
			}
			s.Signal(3)
			time.Sleep(300 * time.Millisecond)
			fmt.Println(s.Stderr()[:3000])
			s.Close()
			break
		}
		_ = st
		s.Close()
	}
	fmt.Println("bad", bad)
}

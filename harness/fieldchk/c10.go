// Package fieldchk decides C10: delimiter splitting partitions the line,
// field index expressions select the documented fields, --nth restricts
// matching to those fields with positions relative to the full line.
package fieldchk

import (
	"fmt"
	"math/rand"
	"regexp"
	"sort"
	"strings"
	"time"
	"unicode/utf8"

	fzf "github.com/junegunn/fzf/src"
	"github.com/junegunn/fzf/src/algo"
	"github.com/junegunn/fzf/src/util"

	"verif/harness/refq"
	"verif/harness/vk"
)

func init() { vk.RegisterWorker("c10", worker) }

func Main(prop, tier string) int {
	r := vk.New("C10", tier)
	r.Rule = "lines over an alphabet with blanks, three literal delimiters (one multi-byte), multi-byte and wide runes x {AWK, 4 literal, 4 regex delimiters (one matching empty)} : (1) partition law and recorded offsets of Tokenize, (2) every range expression with bounds -6..6 (exhaustive) against a reference selector via Transform and the with-nth template renderer, (3) --nth matching of single- and multi-term queries against the reference evaluator applied per selected field, offsets/positions checked against the full line, (4) the program itself on one record with -1: --accept-nth E prints the documented fields of the original line (last delimiter stripped), with and without --ansi colour codes in the record and an unrelated --with-nth. distinct = (delimiter kind, field count, range expression | term kind, outcome) signatures"
	r.Assumptions = []string{"which expressions are syntactically valid follows the documentation: N, -N, A..B, A.., ..B, .. with non-zero bounds", "for --nth the trailing delimiter of the last selected field and trailing blanks are not part of the searchable field (documented: 'to allow suffix match')", "queries for the --nth oracle avoid delimiter characters"}
	r.Fanout("c10", vk.NumWorkers(), 30*time.Minute)
	r.Fanout("c10bin", vk.NumWorkers(), 30*time.Minute)
	r.Floor("accept_nth_runs", 500)
	r.Floor("partition_checked", 1000)
	r.Floor("ranges_checked", 1000)
	r.Floor("nth_matches_checked", 500)
	r.Floor("nth_positive_matches", 100)
	return r.Finish()
}

type delim struct {
	spec string // as given to --delimiter ("" = AWK)
	kind string // awk | str | regex
	re   *regexp.Regexp
}

var delims = []delim{
	{"", "awk", nil},
	{",", "str", nil},
	{"::", "str", nil},
	{"→", "str", nil},
	{"\\t", "str", nil},
	{"[,;]+", "regex", regexp.MustCompile("[,;]+")},
	{",|;", "regex", regexp.MustCompile(",|;")},
	{",*", "regex", regexp.MustCompile(",*")},
	{"[→:]", "regex", regexp.MustCompile("[→:]")},
}

var lineAlpha = []rune{'a', 'b', 'A', 'é', '日', ' ', ' ', '\t', ',', ',', ';', ':', '→', 'x', ' ', ',',
	// characters whose UTF-8 encoding ends in a byte that is white space in Latin-1 (0x85, 0xA0), and the
	// ASCII white space that is not an AWK separator here
	'Å', 'à', 'ą', 'Š', '\u00a0', '\f', '\v', '\r'}

func randLine(rng *rand.Rand, n int) string {
	rs := make([]rune, n)
	for i := range rs {
		rs[i] = lineAlpha[rng.Intn(len(lineAlpha))]
	}
	return string(rs)
}

type chk struct {
	r   *vk.Run
	rng *rand.Rand
}

func (c *chk) violate(what string, w map[string]any) {
	c.r.Violate(vk.Violation{Summary: "C10: " + what + fmt.Sprintf(" %v", w), Witness: w})
}

func worker(r *vk.Run, w, n int, args []string) {
	algo.Init("default")
	fzf.VerifSetSortCriteria([]string{"score", "length"})
	c := &chk{r: r, rng: rand.New(rand.NewSource(r.Seed*7777 + int64(w)))}
	total := 160000
	if !r.Quick() {
		total = 12000000
	}
	per := total / n
	exprs := allExprs()
	for i := 0; i < per; i++ {
		L := c.rng.Intn(12)
		if c.rng.Intn(20) == 0 {
			L = c.rng.Intn(60)
		}
		line := randLine(c.rng, L)
		d := delims[c.rng.Intn(len(delims))]
		vk.SetCase(map[string]any{"line": line, "delimiter": d.spec})
		toks := c.partition(line, d)
		if toks == nil {
			continue
		}
		// a block of range expressions per line; thorough enumerates all of them on a share of lines
		k := 6
		if !r.Quick() && i%50 == 0 || r.Quick() && i%400 == 0 {
			k = len(exprs)
		}
		start := c.rng.Intn(len(exprs))
		for j := 0; j < k; j++ {
			c.ranges(line, d, toks, exprs[(start+j)%len(exprs)])
		}
		c.nth(line, d, toks, exprs[c.rng.Intn(len(exprs))], exprs[c.rng.Intn(len(exprs))])
		r.Eval(1)
	}
}

type tok struct {
	text   string
	prefix int // rune offset in the line
}

// partition checks Tokenize and returns the tokens as plain values.
func (c *chk) partition(line string, d delim) []tok {
	del := fzf.VerifDelimiter(d.spec)
	if d.kind == "awk" {
		del = fzf.Delimiter{}
	}
	tokens := fzf.Tokenize(line, del)
	c.r.Count("partition_checked", 1)
	out := make([]tok, len(tokens))
	var sb strings.Builder
	for i, t := range tokens {
		out[i] = tok{fzf.VerifTokenText(t), fzf.VerifTokenPrefixLength(t)}
		sb.WriteString(out[i].text)
	}
	w := map[string]any{"line": line, "delimiter": d.spec, "tokens": out}
	expect := line
	lead := 0
	if d.kind == "awk" {
		expect = strings.TrimLeft(line, " \t")
		lead = utf8.RuneCountInString(line) - utf8.RuneCountInString(expect)
	}
	if sb.String() != expect {
		c.violate("fields concatenated do not give back the line", w)
		return nil
	}
	off := lead
	for i, t := range out {
		if t.prefix != off {
			w["index"] = i
			c.violate("recorded offset of a field differs from the number of characters before it", w)
			return nil
		}
		off += utf8.RuneCountInString(t.text)
	}
	// each field but the last ends with exactly one delimiter occurrence and contains no other
	for i, t := range out {
		last := i == len(out)-1
		switch d.kind {
		case "awk":
			body := strings.TrimRight(t.text, " \t")
			if body == "" || strings.ContainsAny(body, " \t") || (!last && body == t.text) {
				w["index"] = i
				c.violate("AWK field is not a run of non-blanks followed by blanks", w)
				return nil
			}
		case "str":
			ds := strings.ReplaceAll(d.spec, "\\t", "\t")
			n := strings.Count(t.text, ds)
			if !last && (n != 1 || !strings.HasSuffix(t.text, ds)) || last && n != 0 && !(n == 1 && false) {
				// the last field never contains the delimiter (a trailing delimiter yields an empty last field)
				w["index"] = i
				c.violate("literal-delimiter field does not end at the first delimiter occurrence", w)
				return nil
			}
		case "regex":
			locs := d.re.FindAllStringIndex(t.text, -1)
			// a non-last field ends with a delimiter match and has no non-empty match before it
			if !last {
				okEnd := false
				for _, l := range locs {
					if l[1] == len(t.text) {
						okEnd = true
					} else if l[1] > l[0] {
						okEnd = false
						break
					}
				}
				if !okEnd && len(t.text) > 0 {
					w["index"] = i
					c.violate("regex-delimiter field does not end with the first delimiter match", w)
					return nil
				}
			}
		}
	}
	c.r.Distinct(fmt.Sprintf("part %s n%d", d.kind, len(out)))
	return out
}

type expr struct {
	s    string
	a, b int  // 0 = open
	one  bool // single index
}

func allExprs() []expr {
	var out []expr
	out = append(out, expr{"..", 0, 0, false})
	for a := -6; a <= 6; a++ {
		if a == 0 {
			continue
		}
		out = append(out, expr{fmt.Sprint(a), a, a, true})
		out = append(out, expr{fmt.Sprintf("%d..", a), a, 0, false})
		out = append(out, expr{fmt.Sprintf("..%d", a), 0, a, false})
		for b := -6; b <= 6; b++ {
			if b == 0 {
				continue
			}
			if a < 0 && b > 0 {
				continue // undocumented combination, rejected by fzf
			}
			out = append(out, expr{fmt.Sprintf("%d..%d", a, b), a, b, false})
		}
	}
	return out
}

// refSelect: 1-based inclusive selection with negative indices counted from the end.
func refSelect(e expr, n int) (int, int) {
	norm := func(i int) int {
		if i < 0 {
			return n + 1 + i
		}
		return i
	}
	if e.one {
		i := norm(e.a)
		return i, i
	}
	lo, hi := 1, n
	if e.a != 0 {
		lo = norm(e.a)
	}
	if e.b != 0 {
		hi = norm(e.b)
	}
	return lo, hi
}

func (c *chk) ranges(line string, d delim, toks []tok, e expr) {
	s := e.s
	rng, ok := fzf.ParseRange(&s)
	if !ok {
		c.violate("documented range expression rejected", map[string]any{"expr": e.s})
		return
	}
	del := fzf.VerifDelimiter(d.spec)
	if d.kind == "awk" {
		del = fzf.Delimiter{}
	}
	tokens := fzf.Tokenize(line, del)
	got := fzf.Transform(tokens, []fzf.Range{rng})
	c.r.Count("ranges_checked", 1)
	lo, hi := refSelect(e, len(toks))
	var sb strings.Builder
	first := -1
	for i := lo; i <= hi; i++ {
		if i >= 1 && i <= len(toks) {
			if first < 0 {
				first = i
			}
			sb.WriteString(toks[i-1].text)
		}
	}
	w := map[string]any{"line": line, "delimiter": d.spec, "expr": e.s, "fields": toks, "expected": sb.String()}
	if len(got) != 1 {
		c.violate("Transform returned a wrong number of tokens", w)
		return
	}
	gt := fzf.VerifTokenText(got[0])
	w["got"] = gt
	if gt != sb.String() {
		c.violate("range expression selected the wrong fields", w)
		return
	}
	if first > 0 && fzf.VerifTokenPrefixLength(got[0]) != toks[first-1].prefix {
		w["got_prefix"] = fzf.VerifTokenPrefixLength(got[0])
		c.violate("selected fields carry the wrong character offset", w)
		return
	}
	// the --with-nth / --accept-nth renderer must select the same fields
	if tr, err := fzf.VerifNthTransform(e.s, del, line, 0); err != nil {
		c.violate("with-nth rejected a documented expression", w)
	} else if tr != sb.String() {
		w["with_nth"] = tr
		c.violate("--with-nth selected different fields than the range expression", w)
	}
	c.r.Distinct(fmt.Sprintf("range %s n%d %s sel%d", d.kind, len(toks), e.s, max0(hi-lo+1)))
}

func max0(a int) int {
	if a < 0 {
		return 0
	}
	if a > 7 {
		return 7
	}
	return a
}

var bodyAlpha = []rune{'a', 'b', 'A', 'é', 'e', '日', 'x'}

func (c *chk) randTerm() (string, string) {
	n := 1 + c.rng.Intn(2)
	b := make([]rune, n)
	for i := range b {
		b[i] = bodyAlpha[c.rng.Intn(len(bodyAlpha))]
	}
	body := string(b)
	kinds := []string{"%s", "'%s", "'%s'", "^%s", "%s$", "^%s$"}
	k := c.rng.Intn(len(kinds))
	t := fmt.Sprintf(kinds[k], body)
	if c.rng.Intn(5) == 0 {
		t = "!" + t
	}
	return t, refq.KindNames[k]
}

// fieldText is the searchable text of a selected field: for non-AWK delimiters the
// trailing delimiter of the last range and trailing blanks are dropped.
func fieldText(sel string, d delim, last bool) string {
	if !last || d.kind == "awk" {
		return sel
	}
	s := sel
	switch d.kind {
	case "str":
		s = strings.TrimSuffix(s, strings.ReplaceAll(d.spec, "\\t", "\t"))
	case "regex":
		locs := d.re.FindAllStringIndex(s, -1)
		if len(locs) > 0 && locs[len(locs)-1][1] == len(s) {
			s = s[:locs[len(locs)-1][0]]
		}
	}
	return strings.TrimRightFunc(s, func(r rune) bool {
		return r == ' ' || r == '\t' || r == '\n' || r == '\r' || r == '\v' || r == '\f' || r == 0x85 || r == 0xa0 || r == 0x3000 || r == 0x2028 || r == 0x2029 || (r >= 0x2000 && r <= 0x200a) || r == 0x1680 || r == 0x202f || r == 0x205f
	})
}

func (c *chk) nth(line string, d delim, toks []tok, e1, e2 expr) {
	exprs := []expr{e1}
	if c.rng.Intn(3) == 0 {
		exprs = append(exprs, e2)
	}
	var ranges []fzf.Range
	var specs []string
	for _, e := range exprs {
		s := e.s
		r, ok := fzf.ParseRange(&s)
		if !ok {
			return
		}
		ranges = append(ranges, r)
		specs = append(specs, e.s)
	}
	nterms := 1 + c.rng.Intn(2)
	var terms, kinds []string
	for i := 0; i < nterms; i++ {
		t, k := c.randTerm()
		terms = append(terms, t)
		kinds = append(kinds, k)
	}
	query := strings.Join(terms, " ")
	del := fzf.VerifDelimiter(d.spec)
	if d.kind == "awk" {
		del = fzf.Delimiter{}
	}
	// reference: field texts and their spans
	type span struct{ lo, hi int }
	var fields []string
	var spans []span
	for ri, e := range exprs {
		lo, hi := refSelect(e, len(toks))
		var sb strings.Builder
		first := -1
		for i := lo; i <= hi; i++ {
			if i >= 1 && i <= len(toks) {
				if first < 0 {
					first = i
				}
				sb.WriteString(toks[i-1].text)
			}
		}
		ft := fieldText(sb.String(), d, ri == len(exprs)-1)
		fields = append(fields, ft)
		p := 0
		if first > 0 {
			p = toks[first-1].prefix
		}
		spans = append(spans, span{p, p + utf8.RuneCountInString(ft)})
	}
	fwd := c.rng.Intn(2) == 0
	algoV := c.rng.Intn(2)
	pat := fzf.VerifBuildPattern(true, algoV, true, fzf.CaseSmart, true, fwd, true, ranges, del, query)
	item := fzf.VerifNewItem(line, 0)
	slab := util.MakeSlab(100*1024, 2048)
	m := fzf.VerifMatchItem(pat, item, true, slab)
	rq := refq.Parse(query, refq.Opts{Extended: true, Case: "smart"})
	exp := rq.Matches(line, fields)
	c.r.Count("nth_matches_checked", 1)
	w := map[string]any{"line": line, "delimiter": d.spec, "nth": specs, "query": query, "fields_searchable": fields, "forward": fwd, "algo_v1": algoV == 1,
		"got": map[string]any{"matched": m.Matched, "offsets": m.Offsets, "positions": m.Positions}}
	c.r.Distinct(fmt.Sprintf("nth %s %v m%v", d.kind, kinds, exp))
	if m.Matched != exp {
		c.violate(fmt.Sprintf("--nth match=%v but the reference says %v", m.Matched, exp), w)
		return
	}
	if !m.Matched {
		return
	}
	c.r.Count("nth_positive_matches", 1)
	if c.r.Counter("nth_positive_matches")%3000 == 1 {
		c.r.Sample(w)
	}
	runes := []rune(line)
	inSpan := func(p int) bool {
		for _, s := range spans {
			if p >= s.lo && p < s.hi {
				return true
			}
		}
		return false
	}
	for ti, o := range m.Offsets {
		if o[0] == 0 && o[1] == 0 {
			continue // inverse term
		}
		if int(o[0]) < 0 || int(o[1]) > len(runes) || o[0] > o[1] {
			c.violate("match offset outside the line", w)
			return
		}
		for p := int(o[0]); p < int(o[1]); p++ {
			if !inSpan(p) {
				w["term_index"] = ti
				c.violate("match range leaves the selected fields", w)
				return
			}
		}
	}
	// positions: relative to the full line, inside the selected fields, holding the characters of the positive terms
	if m.HasPos {
		pos := append([]int(nil), m.Positions...)
		sort.Ints(pos)
		var want []rune
		for _, g := range rq {
			if len(g) == 1 && !g[0].Inv {
				want = append(want, g[0].Body...)
			}
		}
		for _, p := range pos {
			if p < 0 || p >= len(runes) || !inSpan(p) {
				c.violate("highlight position outside the selected fields", w)
				return
			}
		}
		// every position must hold one of the query characters (case/accent folded)
		for _, p := range pos {
			ok := false
			for _, g := range rq {
				for _, t := range g {
					f := refq.FoldLine(runes[p:p+1], t)
					for _, b := range t.Body {
						if f[0] == b {
							ok = true
						}
					}
				}
			}
			if !ok {
				w["position"] = p
				c.violate("highlight position does not hold a query character of the full line", w)
				return
			}
		}
		_ = want
	}
}

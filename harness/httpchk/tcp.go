package httpchk

import (
	"fmt"
	"math/rand"
	"net"
	"strings"
	"syscall"
	"time"

	"verif/harness/tty"
	"verif/harness/vk"
)

func init() { vk.RegisterWorker("c16tcp", workerTCP) }

// workerTCP: the real server over TCP inside an interactive fzf: liveness after hostile
// connections, state before == state after for rejected requests and GET, the key rule end to
// end, POST == --bind equivalence, and the bound address of local listeners.
func workerTCP(r *vk.Run, w, n int, args []string) {
	rng := rand.New(rand.NewSource(r.Seed*32749 + int64(w)*167 + 2))
	sessions := 32
	if !r.Quick() {
		sessions = 400
	}
	per := sessions/n + 1
	if w%4 == 0 || !r.Quick() {
		stalledSession(r, rng)
	}
	if w%4 == 1 || !r.Quick() {
		blankKeySession(r, rng)
	}
	if w%8 == 2 || !r.Quick() && w%2 == 0 {
		dripSession(r, rng)
	}
	for i := 0; i < per; i++ {
		switch i % 3 {
		case 0, 1:
			tcpSession(r, rng, i%2 == 1)
		default:
			equivalence(r, rng)
		}
	}
}

// stalledSession: "no request can wedge fzf", with the one situation in which the server has to
// give up on a request: the terminal stops reading (its emulator is stopped), fzf's renderer blocks
// in a write while it holds the terminal lock, GET requests arrive and time out. After the terminal
// reads again, fzf must answer GET and execute a POST (bounded progress; the verdict needs fzf to be
// alive with a silent trace for the whole watchdog).
func stalledSession(r *vk.Run, rng *rand.Rand) {
	s, err := tty.Start(tty.StartOpts{Args: []string{"--multi", "--no-mouse"}, InputCmd: "seq 1000 1500", Cols: 120, Rows: 40})
	if err != nil {
		r.Inconclusive("start: " + err.Error())
		if s != nil {
			s.Close()
		}
		return
	}
	defer s.Close()
	if _, ok := s.WaitQuiescent(30 * time.Second); !ok {
		r.Inconclusive("no quiescence at start: " + s.LastWait)
		return
	}
	if !s.StallTerminal(true) {
		r.Inconclusive("cannot stop the terminal emulator")
		return
	}
	post := func(body string, d time.Duration) bool {
		reply, _ := s.RawHTTP([]byte(fmt.Sprintf("POST / HTTP/1.1\r\nContent-Length: %d\r\n\r\n%s", len(body), body)), d, false)
		return strings.HasPrefix(string(reply), "HTTP/1.1 200")
	}
	// redraws until the pty is full and a POST is no longer taken
	accepted, refused := 0, 0
	for i := 0; i < 400 && refused < 2; i++ {
		if post("toggle-all+change-prompt("+strings.Repeat("p", 40+i%30)+"> )", 700*time.Millisecond) {
			accepted++
		} else {
			refused++
		}
	}
	// GETs while the renderer is stuck
	gets := 1 + rng.Intn(3)
	done := make(chan string, gets)
	for g := 0; g < gets; g++ {
		go func() {
			reply, _ := s.RawHTTP([]byte("GET / HTTP/1.1\r\n\r\n"), 8*time.Second, false)
			done <- firstLine(string(reply))
		}()
	}
	var getReplies []string
	for g := 0; g < gets; g++ {
		getReplies = append(getReplies, <-done)
	}
	timedOut := 0
	for _, g := range getReplies {
		if !strings.HasPrefix(g, "HTTP/1.1 200") {
			timedOut++
		}
	}
	time.Sleep(time.Duration(rng.Intn(1500)) * time.Millisecond)
	s.StallTerminal(false)
	r.Eval(1)
	r.Count("stall_sessions", 1)
	r.Count("stall_gets_unanswered", int64(timedOut))
	wit := map[string]any{"posts_accepted_while_stalled": accepted, "posts_refused_while_stalled": refused, "get_replies_while_stalled": getReplies}
	// bounded progress after the stall
	probe := fmt.Sprintf("wedge-probe-%d", rng.Intn(100000))
	deadline := time.Now().Add(40 * time.Second)
	posted := false
	for {
		if !posted {
			posted = post("change-query("+probe+")", 2*time.Second)
		}
		if posted {
			if st, err := s.Get(1); err == nil && st.Query == probe {
				break
			}
		}
		if _, exited := s.ExitCode(); exited {
			wit["stderr"] = clipS(s.Stderr())
			r.Violate(vk.Violation{Summary: "C16: fzf exited after its terminal stalled while GET requests were pending: " + firstLine(s.Stderr()), Witness: wit})
			return
		}
		if time.Now().After(deadline) {
			n1 := len(s.Trace())
			time.Sleep(2 * time.Second)
			if len(s.Trace()) != n1 {
				r.Inconclusive("after the terminal stall fzf is slow but its trace is still active")
				return
			}
			s.Signal(syscall.SIGQUIT)
			s.WaitExit(3 * time.Second)
			wit["probe_post_accepted"] = posted
			wit["goroutine_dump"] = clipS(s.Stderr())
			r.Violate(vk.Violation{Summary: fmt.Sprintf("C16: fzf is wedged: %d GET request(s) arrived while the terminal was not reading (%d unanswered); 40 s after the terminal resumed fzf still does not answer GET / execute a POST, and its trace is silent", gets, timedOut), Witness: wit})
			return
		}
		time.Sleep(50 * time.Millisecond)
	}
	r.Distinct(fmt.Sprintf("stall gets%d unanswered%d", gets, timedOut))
}

// blankKeySession: a key made of blanks only is still a configured key (or must be refused at start):
// a non-local listener started with it must not hand out state or accept actions without a key.
func blankKeySession(r *vk.Run, rng *rand.Rand) {
	key := []string{" ", "\t", "  \t "}[rng.Intn(3)]
	s, err := tty.Start(tty.StartOpts{Args: []string{"--multi", "--no-mouse"}, InputCmd: "seq 1 50", Cols: 80, Rows: 20, Env: []string{"FZF_API_KEY=" + key}, Listen: "0.0.0.0:0"})
	if s != nil {
		defer s.Close()
	}
	r.Eval(1)
	r.Count("blank_key_sessions", 1)
	r.Distinct(fmt.Sprintf("blank key %q", key))
	if s == nil || s.Port == 0 {
		// refused at start-up (or no listener): nothing is exposed
		_ = err
		return
	}
	for _, req := range []string{"GET / HTTP/1.1\r\n\r\n", "POST / HTTP/1.1\r\nContent-Length: 4\r\n\r\ndown", "GET /?limit=3 HTTP/1.1\r\nx-api-key:\r\n\r\n"} {
		reply, _ := s.RawHTTP([]byte(req), 5*time.Second, false)
		if strings.HasPrefix(string(reply), "HTTP/1.1 200") || strings.Contains(string(reply), "matchCount") {
			r.Violate(vk.Violation{Summary: fmt.Sprintf("C16: FZF_API_KEY=%q on a non-local listener: a request without the key is answered %s", key, firstLine(string(reply))), Witness: map[string]any{"key": key, "request": req, "reply": clip(reply)}})
			return
		}
	}
}

// dripSession: a client that sends one header line every two seconds and never finishes must not keep
// other clients from being served: the server bounds the time it spends reading one request (10 s), so
// a valid GET made 13 s into the drip has to be answered within another 10 s while the drip goes on.
func dripSession(r *vk.Run, rng *rand.Rand) {
	s, err := tty.Start(tty.StartOpts{Args: []string{"--no-mouse"}, InputCmd: "seq 1 50", Cols: 80, Rows: 20})
	if err != nil {
		r.Inconclusive("start: " + err.Error())
		if s != nil {
			s.Close()
		}
		return
	}
	defer s.Close()
	c, err := net.DialTimeout("tcp", fmt.Sprintf("127.0.0.1:%d", s.Port), 2*time.Second)
	if err != nil {
		r.Inconclusive("drip connect: " + err.Error())
		return
	}
	defer c.Close()
	stop := make(chan struct{})
	lines := make(chan int, 1)
	go func() {
		n := 0
		c.Write([]byte([]string{"GET / HTTP/1.1\r\n", "POST / HTTP/1.1\r\n"}[rng.Intn(2)]))
		for {
			select {
			case <-stop:
				lines <- n
				return
			case <-time.After(2 * time.Second):
				if _, err := c.Write([]byte(fmt.Sprintf("X-Drip-%d: v\r\n", n))); err != nil {
					<-stop
					lines <- n
					return
				}
				n++
			}
		}
	}()
	time.Sleep(13 * time.Second)
	t0 := time.Now()
	reply, gerr := s.RawHTTP([]byte("GET / HTTP/1.1\r\n\r\n"), 10*time.Second, false)
	took := time.Since(t0)
	close(stop)
	sent := <-lines
	r.Eval(1)
	r.Count("drip_sessions", 1)
	r.Distinct("drip")
	if !strings.HasPrefix(string(reply), "HTTP/1.1 200") {
		if _, exited := s.ExitCode(); exited {
			r.Violate(vk.Violation{Summary: "C16: fzf exited while a client was dripping header lines: " + firstLine(s.Stderr()), Witness: map[string]any{"stderr": clipS(s.Stderr())}})
			return
		}
		r.Violate(vk.Violation{Summary: fmt.Sprintf("C16: a client dripping one header line every 2 s (%d lines so far, request never finished) keeps the server from answering another client: a valid GET made 13 s into the drip got %q after %v (%v)", sent, firstLine(string(reply)), took.Round(time.Millisecond), gerr),
			Witness: map[string]any{"header_lines_sent": sent, "reply": clip(reply)}})
	}
}

func snapshot(st *tty.Status) string {
	var sel []string
	for _, x := range st.Selected {
		sel = append(sel, fmt.Sprint(x.Index))
	}
	cur := -1
	if st.Current != nil {
		cur = st.Current.Index
	}
	return fmt.Sprintf("q=%q pos=%d cur=%d mc=%d tc=%d sort=%v sel=%v", st.Query, st.Position, cur, st.MatchCount, st.TotalCount, st.Sort, sel)
}

func tcpSession(r *vk.Run, rng *rand.Rand, keyed bool) {
	key := ""
	var env []string
	var hdr []string
	if keyed {
		key = "s3cr3t-key"
		env = []string{"FZF_API_KEY=" + key}
		hdr = []string{"x-api-key: " + key}
	}
	listen := []string{"127.0.0.1:0", "localhost:0", "0", ":0"}[rng.Intn(4)]
	s, err := tty.Start(tty.StartOpts{Args: []string{"--multi", "--no-mouse"}, InputCmd: "seq 1 200", Cols: 80, Rows: 20, Env: env, Listen: listen})
	if err != nil {
		if s != nil {
			// with a key the readiness probe (GET without key) is refused: find the port and carry on
			if keyed && s.Port != 0 {
				// fallthrough below
			} else {
				r.Inconclusive("start: " + err.Error())
				s.Close()
				return
			}
		} else {
			r.Inconclusive("start: " + err.Error())
			return
		}
	}
	defer s.Close()
	r.Count("tcp_sessions", 1)
	// a local listener must be bound to the loopback address
	if s.ListenAddrHex != "" && s.ListenAddrHex != "0100007F" && s.ListenAddrHex != "00000000000000000000000001000000" {
		r.Violate(vk.Violation{Summary: fmt.Sprintf("C16: --listen %q (local) is bound to address %s, not loopback", listen, s.ListenAddrHex), Witness: map[string]any{"listen": listen, "address": s.ListenAddrHex}})
		return
	}
	get := func() (*tty.Status, error) { return s.Get(10, hdr...) }
	var base *tty.Status
	for poll := 0; poll < 300; poll++ {
		if base, err = get(); err == nil && !base.Reading {
			break
		}
		time.Sleep(10 * time.Millisecond)
	}
	if err != nil || base == nil {
		r.Inconclusive("baseline GET failed: " + fmt.Sprint(err))
		return
	}
	before := snapshot(base)
	var hist []string
	hostile := [][]byte{
		[]byte("\x00\xff\xfe garbage\r\n\r\n"), []byte("GET"), []byte("POST / HTTP/1.1\r\n"), []byte("POST / HTTP/1.1\r\nContent-Length: 10\r\n\r\nup"),
		[]byte("GET /?limit=9223372036854775807&offset=1 HTTP/1.1\r\n\r\n"), []byte("GET /?limit=-5&offset=-3 HTTP/1.1\r\n\r\n"), []byte("GET /?offset=99999999999999999999 HTTP/1.1\r\n\r\n"), []byte("GET /?limit=9223372036854775807&offset=9223372036854775807 HTTP/1.1\r\n\r\n"),
		[]byte("POST / HTTP/1.1\r\nContent-Length: 99999999\r\n\r\nup"), []byte("POST / HTTP/1.1\r\nContent-Length: -1\r\n\r\nup"), []byte("POST / HTTP/1.1\r\nContent-Length: 2\r\n\r\n\xff\xfe"),
		[]byte("POST / HTTP/1.1\r\nContent-Length: 14\r\n\r\nno-such-action"), []byte("DELETE / HTTP/1.1\r\n\r\n"), []byte("POST / HTTP/1.1\r\n" + strings.Repeat("X-Pad: "+strings.Repeat("a", 1000)+"\r\n", 70) + "Content-Length: 2\r\n\r\nup"),
		[]byte("POST / HTTP/1.1\r\nContent-Length: 1048577\r\n\r\n" + strings.Repeat("a", 1048577)), []byte(strings.Repeat("A", 70000)),
		[]byte("POST / HTTP/1.1\r\nx-api-key: wrong\r\nContent-Length: 4\r\n\r\ndown"), []byte("POST / HTTP/1.1\r\nx-api-key: s3cr3t-ke\r\nContent-Length: 4\r\n\r\ndown"), []byte("POST / HTTP/1.1\r\nContent-Length: 4\r\n\r\ndown"),
	}
	steps := 12 + rng.Intn(12)
	for k := 0; k < steps; k++ {
		h := hostile[rng.Intn(len(hostile))]
		stall := rng.Intn(6) == 0
		// an unkeyed server executes the well-formed unauthenticated POSTs: skip those there
		if !keyed && (strings.HasSuffix(string(h), "Content-Length: 4\r\n\r\ndown") || strings.HasSuffix(string(h), "Content-Length: 2\r\n\r\nup")) {
			continue
		}
		var reply []byte
		if stall {
			// half a request, a pause, then close: bounded by the server's own read deadline
			reply, _ = s.RawHTTP(h[:len(h)/2], 400*time.Millisecond, false)
		} else {
			reply, _ = s.RawHTTP(h, 15*time.Second, true)
		}
		hist = append(hist, fmt.Sprintf("%q -> %q", clip(h), clip(reply)))
		r.Eval(1)
		r.Count("tcp_hostile_requests", 1)
		if len(reply) > 0 && !replyRe.Match(reply) {
			r.Violate(vk.Violation{Summary: fmt.Sprintf("C16: reply over TCP is not a well-formed HTTP answer: %s", clip(reply)), Witness: map[string]any{"request": clip(h), "reply": clip(reply), "history": hist}})
			return
		}
		if keyed && !strings.Contains(string(h), "x-api-key: "+key+"\r\n") && (strings.Contains(string(reply), "matchCount") || strings.HasPrefix(string(reply), "HTTP/1.1 200")) {
			r.Violate(vk.Violation{Summary: "C16: request without the exact key was answered 200 / with state over TCP", Witness: map[string]any{"request": clip(h), "reply": clip(reply)}})
			return
		}
		// liveness and state
		var st *tty.Status
		var gerr error
		for poll := 0; poll < 3; poll++ {
			if st, gerr = get(); gerr == nil {
				break
			}
			time.Sleep(100 * time.Millisecond)
		}
		if gerr != nil {
			rc, exited := s.ExitCode()
			r.Violate(vk.Violation{Summary: fmt.Sprintf("C16: after the request %s fzf no longer answers a valid GET (%v; exited=%v rc=%d): %s", clip(h), gerr, exited, rc, firstLine(s.Stderr())),
				Witness: map[string]any{"request": clip(h), "history": hist, "stderr": clipS(s.Stderr())}})
			return
		}
		if after := snapshot(st); after != before {
			r.Violate(vk.Violation{Summary: fmt.Sprintf("C16: a rejected request / GET changed the state: %s -> %s (request %s)", before, after, clip(h)), Witness: map[string]any{"request": clip(h), "history": hist}})
			return
		}
		r.Distinct(fmt.Sprintf("tcp keyed%v stall%v %s", keyed, stall, clip(h[:min(len(h), 30)])))
	}
}

func firstLine(s string) string {
	if i := strings.Index(s, "\n"); i > 0 {
		return s[:i]
	}
	return s
}

func min(a, b int) int {
	if a < b {
		return a
	}
	return b
}

// equivalence: POST X on one instance == key bound to X on another.
func equivalence(r *vk.Run, rng *rand.Rand) {
	actions := []string{"down+down+toggle", "change-query(1)+last", "toggle-all+first", "put(2)+put(0)+up", "select-all+deselect", "pos(7)+toggle+down", "toggle-sort+put(9)", "half-page-up+toggle+up+toggle", "change-query(abc)+backward-kill-word+put(5)"}
	x := actions[rng.Intn(len(actions))]
	a, err := tty.Start(tty.StartOpts{Args: []string{"--multi", "--no-mouse"}, InputCmd: "seq 1 200", Cols: 80, Rows: 20})
	if err != nil {
		r.Inconclusive("start: " + err.Error())
		if a != nil {
			a.Close()
		}
		return
	}
	defer a.Close()
	b, err := tty.Start(tty.StartOpts{Args: []string{"--multi", "--no-mouse", "--bind", "f1:" + x}, InputCmd: "seq 1 200", Cols: 80, Rows: 20})
	if err != nil {
		r.Inconclusive("start: " + err.Error())
		if b != nil {
			b.Close()
		}
		return
	}
	defer b.Close()
	a.WaitQuiescent(20 * time.Second)
	b.WaitQuiescent(20 * time.Second)
	if code, err := a.Post(x); err != nil || code != 200 {
		r.Violate(vk.Violation{Summary: fmt.Sprintf("C16: POST %q answered %d %v", x, code, err), Witness: map[string]any{"action": x}})
		return
	}
	b.SendKeys("F1")
	sa, oka := a.WaitQuiescent(20 * time.Second)
	// the key press is not a POST: wait for the UI loop to go quiet, then for the search
	time.Sleep(150 * time.Millisecond)
	sb, okb := b.WaitQuiescent(20 * time.Second)
	if !oka || !okb {
		r.Inconclusive("equivalence: no quiescence")
		return
	}
	for poll := 0; poll < 20 && snapshot(sa) != snapshot(sb); poll++ {
		time.Sleep(50 * time.Millisecond)
		if s2, err := b.Get(10); err == nil {
			sb = s2
		}
		if s2, err := a.Get(10); err == nil {
			sa = s2
		}
	}
	r.Eval(1)
	r.Count("equivalence_pairs", 1)
	r.Distinct("equiv " + x)
	if snapshot(sa) != snapshot(sb) {
		r.Violate(vk.Violation{Summary: fmt.Sprintf("C16: POST %q and the same action list bound to a key end in different states: %s vs %s", x, snapshot(sa), snapshot(sb)), Witness: map[string]any{"action": x, "post_state": snapshot(sa), "bind_state": snapshot(sb)}})
	}
}

#!/bin/sh
# Preview command used by the C20 check.  usage: preview.sh <tag> <n> <q> <current> [<selected>...]
# Appends a start record to $VERIF_PREVIEW_LOG, prints a nonce and its arguments, then behaves
# according to n mod 4: 0 exit at once, 1 finish after 0.25 s (last line without a newline),
# 2 never end (every other item: after closing its own stdout and stderr), 3 print incrementally.
tag="$1"; n="$2"; q="$3"; cur="$4"; shift 4
nonce="$(od -An -N4 -tx4 /dev/urandom | tr -d ' ')"
sel=""
for s in "$@"; do sel="$sel|$s"; done
printf 'start\t%s\t%s\t%s\t%s\t%s\t%s\t%s\n' "$nonce" "$$" "$tag" "$n" "$q" "$cur" "$sel" >> "$VERIF_PREVIEW_LOG"
echo "@$nonce"
echo "N=$n Q=$q"
case "$n" in ''|*[!0-9]*) exit 0;; esac
case $((n % 4)) in
  0) exit 0 ;;
  1) sleep 0.25; printf DONE ;;
  2) echo RUNNING
     if [ $(((n / 4) % 2)) -eq 1 ]; then exec sleep 1000.5 >/dev/null 2>&1; fi
     exec sleep 1000.5 ;;
  3) for i in 1 2 3 4 5; do echo "chunk $i"; sleep 0.1; done ;;
esac

#!/usr/bin/env python3
"""Rebuild the seeded-change table at the end of DESIGN.md from seeded/*/meta.json."""
import json, os, re, glob

V = os.path.dirname(os.path.dirname(os.path.abspath(__file__)))

WHAT = {
 "C01-1": "anchored/boundary terms cached under the bare key (after `^foo`, `foo` is served from it); interactive, full chunk, <=20 matches",
 "C01-2": "right-hand boundary check became `else if`: one-character `'a'` matches any word starting with a",
 "C01-3": "V2 long-line fallback calls V1 with caseSensitive/normalize swapped (line*term > 102400)",
 "C02-1": "exactMatchNaive retries only the current character after a partial match (self-overlapping patterns)",
 "C02-2": "ASCII fast path treats every byte <= ' ' as blank in Leading/TrailingWhitespaces",
 "C02-3": "alloc16/alloc32 ignore the offset: slice-bounds panic for sizes in a narrow window with a slab",
 "C03-1": "`Hleft[0] = 0` removed: stale slab cell inflates the next line's score",
 "C03-2": "calculateScore starts from charWhite: path scheme, occurrence at index 0 scored 8 instead of 9",
 "C03-3": "asciiFuzzyIndex bounds the window with LastIndexByte (drops the upper-case twin of the last char)",
 "C04-1": "BuildPattern breaks on the first non-cacheable term: `!zzz foo` treated as negated-only (input order)",
 "C04-2": "single-chunk partitions sorted in place: the cached list is reordered; shows after toggle-sort",
 "C04-3": "mergedGet compares ranks with tac=false: ties across partitions not reversed under --tac",
 "C05-1": "`Hleft[0] = 0` removed (process level: sub-list order differs)",
 "C05-2": "asciiFuzzyIndex LastIndexByte: bytes vs runes representation disagree",
 "C05-3": "per-partition sort always ascending: --tac ties depend on the partitioning",
 "C06-1": "`leftover = leftover[:0]`: a later straddling record overwrites an earlier one",
 "C06-2": "Snapshot reports `changed` only when a whole chunk is dropped: --tail list freezes (mergerCache)",
 "C06-3": "header reset moved under `!useSnapshot`: header-lines become items after reload-sync",
 "C07-1": "acceptNth tokenizes item.text under --ansi + --with-nth + --accept-nth",
 "C07-2": "selection time replaced by len(selected): order wrong after deselect + select",
 "C07-3": "filter exit status counts the --print-query line as output",
 "C08-1": "single-chunk in-place sort corrupts the chunk cache; wrong order after toggle-sort",
 "C08-2": "patternCache not reset on reload: old denylist hides lines of the new input",
 "C08-3": "cancelled scan stops mid-chunk but still caches the truncated chunk result",
 "C08-10": "(regression change, reverse of the F34 repair) header event raised inside ChunkList.Push: lock-order inversion with the main loop's snapshot",
 "C09-1": "kill-line keeps an alias of the query buffer as kill ring (yank after put shows the overwrite)",
 "C09-2": "half-page moves 0 lines when one item line fits (clamp applied before halving)",
 "C09-3": "toggle-all fast path clears the selection when len(selected) == matchCount but the sets differ",
 "C10-1": "prefix lengths counted in bytes",
 "C10-2": "change-nth no longer clears the chunk cache",
 "C10-3": "negative index beyond the first field selects field 1",
 "C11-1": "--ansi skips extractColor when the line has no ESC (SO/SI, overstrikes kept)",
 "C11-2": "early return emits the inherited span with a byte length",
 "C11-3": "`ESC[m` resets the hyperlink and line background too",
 "C12-1": "select-all refreshes the timestamp of already selected items ({+} order)",
 "C12-2": "quoting dialect chosen from $SHELL before --with-shell is applied (fish quoting for sh)",
 "C12-3": "tmux re-launch export loop cuts values at the first `=`",
 "C13-1": "--tail trim shifts the boundary chunk in place (earlier snapshot changes)",
 "C13-2": "cancelled scan returns without waiting for its workers (races on the shared slab)",
 "C13-3": "`leftover = leftover[:0]` in Reader.feed (items change after being read)",
 "C14-1": "KillCommand kills only the shell, not the process group",
 "C14-3": "escSequence reads buffer[6] without the length check (truncated `ESC[1;10`)",
 "C15-1": "`prevLine.other` dropped from the redraw test: stale header text in list rows",
 "C15-2": "prompt repainted only when the cursor column changed",
 "C15-3": "hscroll branch trims to maxWidth instead of maxWidth-ellipsis: row 2 columns too wide",
 "C16-1": "key compared after truncating the given key to the configured length (prefix accepted)",
 "C16-2": "dumpStatus window computation overflows for limit+offset > int64: panic on GET",
 "C16-3": "empty host treated as local and no longer rewritten to localhost: `--listen :PORT` binds the wildcard",
 "C17-1": "maskActionContents blanks one byte per rune: non-ASCII action arguments shift offsets",
 "C17-2": "argument index restarts per source: --tmux in a long options file beats --height on argv",
 "C17-3": "hex colour check without length: `--color fg:#fff` panics",
 "C18-1": "history truncation drops one entry instead of keeping the last N",
 "C18-2": "override stores the edit only when it differs from the stored entry (stale edit returns)",
 "C18-3": "query recorded only on exit 0 (accept with no match not submitted)",
 "C19-1": "path-form skip entries matched by plain suffix (`foo/bar` prunes `xfoo/bar`)",
 "C19-2": "hidden check skipped for symlinked directories",
 "C19-3": "error guard requires `de == nil`: unreadable directory pushed twice",
 "C01-4": "extendedMatch breaks out of an OR group at a matching negated alternative (`!a | b` drops lines with a that satisfy b)",
 "C01-5": "parseTerms splits with strings.Fields: the TAB standing in for an escaped space splits `foo\\ bar` into two terms",
 "C01-6": "exactMatchNaive re-examines only the breaking character after a partial match (`'aab` misses aaab)",
 "C02-4": "calculateScore folds only upper-class runes: V1 reports fewer positions than pattern characters for ǅ / Ⅷ",
 "C02-5": "EqualMatch uses strings.EqualFold (ς≡σ, ſ≡s false matches; İ/i false non-match)",
 "C02-6": "boundary match drops the class check of the preceding character (`'.go'` matches main.go)",
 "C03-4": "path scheme keeps the default delimiters: word character after `, : ; |` gets bonus 9",
 "C03-5": "V2 classifies non-ASCII characters after case folding (camelCase bonus lost / misplaced)",
 "C03-6": "EqualMatch scores with the line length instead of the pattern length (padded lines)",
 "C05-4": "OR-group loop: `continue` for `break` when positions are not wanted: the last matching alternative sets the score",
 "C05-5": "streaming filter reuses one Item: cached --nth tokens of the first line used for every line",
 "C05-6": "alloc16/alloc32 grow the slab: the V2 -> V1 hand-over point moves with the worker's history",
 "C07-4": "leftover buffer reused after a straddling record (`leftover = slice[:0]`): earlier item overwritten (> 2 reads)",
 "C07-5": "origText stored only when the --with-nth transformation differs: trailing blanks not printed",
 "C07-6": "--select-1/--exit-0 short-circuit prints the empty --expect line before the --print-query line",
 "C10-4": "AWK tokenizer tests bytes with unicode.IsSpace: splits inside Å à ą Š and at FF/VT/CR",
 "C10-5": "acceptNth tokenizes item.text when ANSI is stripped (with --with-nth the transformed line)",
 "C10-6": "placeholder lists trim the delimiter per token: `{1,3}` on a:b:c gives ac",
 "C11-4": "open span tracked by pointer into a slice that grows: the 32nd, 64th ... span loses its colour",
 "C11-5": "CSI parameter bytes by range check '0'..';': `?` sequences (ESC[?25l) no longer stripped",
 "C11-6": "SGR table with the rule 2x clears x: 22 clears only dim, bold survives",
 "C12-4": "placeholder regex refactored: the {n}-type alternative left outside the optional backslash (escaped \\{n} expanded)",
 "C12-5": "tmux re-launch leaves harmless-looking arguments unquoted - including the empty one",
 "C12-6": "--with-nth item builder advances the ordinal before the header-line check ({n} off by the header count)",
 "C18-4": "History.append drops the last slot only when empty: a parked draft is written to the file",
 "C18-5": "NewHistory trims with TrimSpace: an entry ending in blanks is loaded trimmed / dropped",
 "C18-6": "history limit kept only in the History object: --history-size before --history falls back to 1000",
 "C19-4": "trimPath applied only for a root spelled `.`: `./a` roots list `./a/...`",
 "C19-5": "dir-only mode returns ErrSkipFiles for non-directories: symlinked directories are not descended",
 "C19-6": "roots walked by goroutines capturing the loop variable: the last root is walked N times",
 "C06-7": "fast path for delimiter-free reads skips the slab renewal: the next Read gets a zero-length buffer, feed ends as at EOF (records >= 192 KiB)",
 "C06-8": "streaming filter drops zero-length records (`-f '' +s`, `!foo`), header count off when a header record is empty",
 "C06-9": "final unterminated record of a command's output pushed only if the command exits 0",
 "C07-7": "accept-non-empty / accept-or-print-query test only for a current line (selection + no match)",
 "C07-8": "--ansi fast path returns lines without ESC unchanged (SO/SI, overstrike kept)",
 "C07-9": "--print0 printer uses Printf(str + sep): `%` in records or query mangled",
 "C08-7": "exclusions checked against the snapshot revision: exclude during a silent reload hides a line of the new input",
 "C08-8": "mergePending carries the pending denylist only when the replacing request has exclusions too",
 "C08-9": "matcher re-clears the chunk cache only on a major revision (change-nth with a search in flight)",
 "C09-7": "--no-input: cursor constrained instead of moved to the end: chained edit actions corrupt the restored query",
 "C09-8": "toggle-in / toggle-out direction test `== layoutReverse`: reversed under reverse-list",
 "C09-9": "revision recorded only when something is selected: after a reload with empty selection the next query change drops the selection (and --track stops)",
 "C14-7": "follow branch of the preview display no longer guarded by hasPreviewWindow: nil window after hiding a streaming preview",
 "C14-8": "executeCommand unlocks the terminal mutex after taking the UI mutex: lock-order inversion with the renderer",
 "C14-9": "--tmux proxy: explicit temp-file removal before become dropped (deferred removals never run across exec)",
 "C15-7": "leaving jump mode through an outside action repaints the list only if jump-cancel is bound",
 "C15-8": "toggle-all repaints only when the number of selected items changed (half selected)",
 "C15-9": "reverse-list row mapping uses all header lines instead of those inside the list window",
 "C16-7": "a POST cut short of its Content-Length is executed (only scanner errors reject)",
 "C16-8": "key stored trimmed, start-up check on the untrimmed value: blank FZF_API_KEY opens a non-local listener",
 "C16-9": "read deadline renewed on every header line: a dripping client blocks the server for good",
 "C20-7": "hasPreviewFlags keeps the flags of the last placeholder only: `{+} ... {}` expands {+} to the focused line",
 "C20-8": "preview collector checks err before appending: final unterminated output line dropped",
 "C20-9": "previewCmd forgotten at EOF of the output, before the command exited: survives the session",
 "C20-1": "reload bumps the preview version only when a selection existed",
 "C20-2": "KillCommand kills only the shell (superseded compound preview survives, holds the pipe)",
 "C04-4": "mergedGet copies the rest of the last live list in bulk but advances its cursor by one (a probe that jumps ahead, then a read further on)",
 "C04-5": "buildResult counts the {0,0} placeholder offset of a satisfied negated term: begin/end/pathname tiebreaks with `foo !bar`",
 "C04-6": "--tail trim copies from the end of the chunk capacity instead of its fill level (partial chunk trimmed)",
 "C06-4": "origText kept only when the --with-nth transformation differs from the record: trailing blanks lost under identity --with-nth",
 "C06-5": "Snapshot reuses its previous copy of the last chunk when the fill level is the same (exactly 100*k records between two snapshots)",
 "C06-6": "pass-through Merger.Get: `>` for `>=` at the short first chunk after --tail (one record replaced by a stale slot)",
 "C08-4": "per-item nth-token cache reused across change-nth (only the major revision is compared)",
 "C08-5": "--exact: a 'boundary' term counts as cacheable but is left out of the cache key",
 "C08-6": "ChunkList memoises its last snapshot by item count; Clear() keeps the memo (reload with the same number of lines)",
 "C09-4": "word motion / word kill use the regexp byte offset as rune count (multi-byte letters before the boundary)",
 "C09-5": "select-all adds the first min(matches, limit) unselected results directly, bypassing the limit check",
 "C09-6": "accept-non-empty / accept-or-print-query test for a current line instead of selection-or-matches",
 "C13-4": "the per-query merger cache is dropped only on sort change or major revision (exclude / --tail window served from an older result)",
 "C13-5": "ChunkList.Push builds the item and increments count after releasing the list mutex (races with Snapshot's copy)",
 "C13-6": "exact chunk-cache lookup no longer checks p.cacheable: `foo !bar` answered from the cached `foo`",
 "C14-4": "re-show-cursor sequence queued after the final flush: cursor stays hidden after --no-input / hide-input sessions",
 "C14-5": "scroll-off adjustment merged into one loop that oscillates forever (even list height, scroll-off >= height/2)",
 "C14-6": "scrollbar drag falls through to the item click when no scrollbar exists: drag out of the window indexes prevLines[-2]",
 "C15-4": "reqPrompt no longer repaints the counts under --info=inline-right",
 "C15-5": "`displayWidth >= maxWidth` truncates a line that exactly fits",
 "C15-6": "multi-line --header drawn bottom-to-top under --layout=reverse-list",
 "C16-4": "API key compared only when the header block ends: a GET whose headers never end is answered with the state",
 "C16-5": "POST body trimmed with TrimSpace: trailing blanks of colon-form arguments lost, ` up ` accepted",
 "C16-6": "tryLock as goroutine + select: a GET that times out leaks a goroutine that later takes the terminal mutex for good",
 "C17-4": "--listen-unsafe sets Unsafe and falls through; a later --listen no longer resets it",
 "C17-5": "action list of `k1,k2:...` parsed once for the first key (`+` append prefix, bare put validity)",
 "C17-6": "options file / $FZF_DEFAULT_OPTS that cannot be split into words is dropped silently",
 "C20-4": "matcher skips EvtSearchFin when the merger object is unchanged: {q} preview not re-run after `a` -> `a `",
 "C20-5": "change-preview-window compares with the initial hidden flag: re-shown window keeps the old output",
 "C20-6": "SIGTERM no longer handled: the preview's process group survives",
 "C20-3": "printPreview `unchanged` shortcut ignores the line count: incremental output painted once",
}

rows = []
for d in sorted(glob.glob(os.path.join(V, "seeded", "*"))):
    mp = os.path.join(d, "meta.json")
    if not os.path.exists(mp):
        continue
    m = json.load(open(mp))
    sid = m["id"]
    caught = sorted({r["check"] for r in m.get("runs", []) if r["result"] == "CAUGHT"})
    missed = sorted({r["check"] for r in m.get("runs", []) if r["result"] == "MISSED"} - set(caught))
    c = ", ".join(caught) if caught else "—"
    if missed:
        c += " (not by " + ", ".join(missed) + ")"
    rows.append(f"| {sid} | {WHAT.get(sid, '')} | {c} |")

table = "| id | seeded change | caught by (quick) |\n|---|---|---|\n" + "\n".join(rows) + "\n"
note = ("\nC14-2 (temp file of `execute(... {f})` created before the early return) and C10-2 (change-nth no longer clears the chunk cache)\n"
        "were confirmed against the pinned tree but are neutralised by later repairs (the exit-time cleanup of F28, the cache reset on\n"
        "every revision change of F26) and are therefore not kept. Seeds whose own-property check is listed under\n"
        "\"not by\" break a clause that is observed by another check (interactive cache effects by C08, selection order by C09,\n"
        "reader aliasing by C06, process groups by C20): the table names the check that decides it.\n")
p = os.path.join(V, "DESIGN.md")
s = open(p).read()
i = s.find("SEEDTABLE")
if i < 0:
    i = s.find("| id | seeded change |")
s = s[:i] + table + note
open(p, "w").write(s)
print(len(rows), "rows")

// Package histchk decides C18 at the History API boundary (volume); the
// interactive sessions (history file after accept / no-match accept / abort) are
// driven by the tty engine.
package histchk

import (
	"fmt"
	"math/rand"
	"os"
	"path/filepath"
	"strings"
	"time"

	fzf "github.com/junegunn/fzf/src"

	"verif/harness/fzfrun"
	"verif/harness/vk"
)

func init() { vk.RegisterWorker("c18", worker) }

// Model is the reference history.
type Model struct {
	Entries []string
	Max     int
}

func LoadModel(file []byte, exists bool, max int) *Model {
	m := &Model{Max: max}
	s := strings.Trim(string(file), "\n")
	if s != "" {
		m.Entries = strings.Split(s, "\n")
	}
	return m
}

// Submit returns the new file content (nil = file untouched).
func (m *Model) Submit(q string) []byte {
	if q == "" {
		return nil
	}
	m.Entries = append(m.Entries, q)
	if len(m.Entries) > m.Max {
		m.Entries = m.Entries[len(m.Entries)-m.Max:]
	}
	return []byte(strings.Join(m.Entries, "\n") + "\n")
}

// Session is the navigation state of one fzf session over a loaded model.
type Session struct {
	m       *Model
	cursor  int // 0..len(entries); len = the line being typed
	overlay map[int]string
}

func (m *Model) NewSession() *Session {
	return &Session{m: m, cursor: len(m.Entries), overlay: map[int]string{}}
}

func (s *Session) at() string {
	if v, ok := s.overlay[s.cursor]; ok {
		return v
	}
	if s.cursor == len(s.m.Entries) {
		return ""
	}
	return s.m.Entries[s.cursor]
}

// Prev / Next: the text currently on the prompt is remembered for the entry being left.
func (s *Session) Prev(current string) string {
	s.overlay[s.cursor] = current
	if s.cursor > 0 {
		s.cursor--
	}
	return s.at()
}

func (s *Session) Next(current string) string {
	s.overlay[s.cursor] = current
	if s.cursor < len(s.m.Entries) {
		s.cursor++
	}
	return s.at()
}

func Main(prop, tier string) int {
	r := vk.New("C18", tier)
	r.Rule = "random multi-session histories against the real History (NewHistory / previous / next / override / append in the order the terminal uses them): initial file missing, empty, with/without trailing newline, longer than the limit, with blank lines; limits 1..6 and 1000; per session 0..12 navigation steps with edits in between, then submit (possibly of an edited old entry), empty submit, or abort. After every step the returned string, after every session the file bytes are compared with the model. Interactive: real sessions with --history/--history-size in a private tmux server, prev-history/next-history/typing through POST, ended by accept (match or no match) or abort; prompt text after each step and file bytes after each session against the same model. distinct = (initial-file class, limit, session shape) signatures"
	r.Assumptions = []string{"queries contain no newline", "the terminal calls override(current) before previous()/next() and append(query) only on accept (exit status 0 or 1)"}
	r.Fanout("c18", vk.NumWorkers(), 30*time.Minute)
	if _, err := fzfrun.Bin(); err == nil {
		r.Fanout("c18tty", vk.NumWorkers(), 30*time.Minute)
		r.Floor("tty_sessions", 10)
	} else {
		r.Inconclusive(err.Error())
	}
	r.Floor("sessions", 1000)
	r.Floor("nav_steps", 1000)
	return r.Finish()
}

var words = []string{"a", "b", "foo", "bar", "foo bar", "é", "x y z", "'q", "!z", "日本", " lead", "trail "}

func worker(r *vk.Run, w, n int, args []string) {
	rng := rand.New(rand.NewSource(r.Seed*8191 + int64(w)*29 + 2))
	dir := filepath.Join(vk.Scratch(), fmt.Sprintf("hist-%d-%d", os.Getpid(), w))
	os.MkdirAll(dir, 0o755)
	defer os.RemoveAll(dir)
	total := 400000
	if !r.Quick() {
		total = 4000000
	}
	per := total / n
	for i := 0; i < per; i++ {
		path := filepath.Join(dir, "h")
		os.Remove(path)
		max := 1 + rng.Intn(6)
		if rng.Intn(6) == 0 {
			max = 1000
		}
		// initial file
		class := rng.Intn(6)
		var init []byte
		exists := true
		switch class {
		case 0:
			exists = false
		case 1:
			init = []byte{}
		case 2, 3, 4:
			k := 1 + rng.Intn(8)
			var ls []string
			for j := 0; j < k; j++ {
				ls = append(ls, words[rng.Intn(len(words))])
			}
			init = []byte(strings.Join(ls, "\n"))
			if class != 2 {
				init = append(init, '\n')
			}
			if class == 4 {
				init = append([]byte("\n"), append(init, '\n')...)
			}
		case 5:
			init = []byte("a\n\nb\n")
		}
		if exists {
			os.WriteFile(path, init, 0o600)
		}
		file := init
		var log []string
		nsess := 1 + rng.Intn(4)
		shape := ""
		ok := true
		for s := 0; s < nsess && ok; s++ {
			vk.SetCase(map[string]any{"initial": string(init), "max": max, "log": log})
			h, err := fzf.NewHistory(path, max)
			if err != nil {
				r.Violate(vk.Violation{Summary: "C18: NewHistory failed: " + err.Error(), Witness: map[string]any{"initial": string(init), "log": log}})
				ok = false
				break
			}
			if !exists {
				exists = true
				file = []byte{}
			}
			m := LoadModel(file, exists, max)
			sess := m.NewSession()
			input := ""
			steps := rng.Intn(13)
			for k := 0; k < steps && ok; k++ {
				// type something in between
				if rng.Intn(3) == 0 {
					input += string(rune('a' + rng.Intn(3)))
					log = append(log, "type -> "+input)
				} else if rng.Intn(6) == 0 && len(input) > 0 {
					input = input[:len(input)-1]
					log = append(log, "delete -> "+input)
				}
				var got, want, op string
				if rng.Intn(5) < 3 {
					op = "prev"
					fzf.VerifHistoryOverride(h, input)
					got = fzf.VerifHistoryPrevious(h)
					want = sess.Prev(input)
				} else {
					op = "next"
					fzf.VerifHistoryOverride(h, input)
					got = fzf.VerifHistoryNext(h)
					want = sess.Next(input)
				}
				r.Count("nav_steps", 1)
				log = append(log, fmt.Sprintf("%s(%q) -> %q", op, input, got))
				if got != want {
					r.Violate(vk.Violation{Summary: fmt.Sprintf("C18: %s returned %q, the model says %q (limit %d, initial file %q)", op, got, want, max, init),
						Witness: map[string]any{"initial_file": string(init), "limit": max, "log": log, "expected": want}})
					ok = false
					break
				}
				input = got
			}
			if !ok {
				break
			}
			end := rng.Intn(4)
			switch end {
			case 0: // abort: nothing written
				log = append(log, "abort")
				shape += "A"
			case 1: // accept with empty query
				fzf.VerifHistoryAppend(h, "")
				m.Submit("")
				log = append(log, "submit empty")
				shape += "E"
			default:
				q := input
				if q == "" || rng.Intn(2) == 0 {
					q = words[rng.Intn(len(words))]
				}
				if err := fzf.VerifHistoryAppend(h, q); err != nil {
					r.Inconclusive("append failed: " + err.Error())
				}
				if nf := m.Submit(q); nf != nil {
					file = nf
				}
				log = append(log, fmt.Sprintf("submit %q", q))
				shape += "S"
			}
			r.Count("sessions", 1)
			disk, _ := os.ReadFile(path)
			if string(disk) != string(file) {
				r.Violate(vk.Violation{Summary: fmt.Sprintf("C18: history file is %q, the model says %q (limit %d, initial file %q)", disk, file, max, init),
					Witness: map[string]any{"initial_file": string(init), "limit": max, "log": log, "file": string(disk), "expected": string(file)}})
				ok = false
			}
		}
		r.Eval(1)
		r.Distinct(fmt.Sprintf("init%d max%d %s", class, max, shape))
		if ok && i%5000 == 3 {
			r.Sample(map[string]any{"initial_file": string(init), "limit": max, "log": log, "final_file": string(file)})
		}
	}
}

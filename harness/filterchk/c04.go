package filterchk

import (
	"fmt"
	"math/rand"
	"os/exec"
	"sort"
	"strings"
	"time"
	"unicode"

	"verif/harness/algochk"
	"verif/harness/fzfrun"
	"verif/harness/refq"
	"verif/harness/vk"
)

func init() {
	vk.RegisterWorker("c04", workerC04)
	vk.RegisterWorker("c05sub", workerC05Sub)
}

func MainC04(prop, tier string) int {
	r := vk.New("C04", tier)
	r.Rule = "three monitors over filter-mode output: (1) permutation: the output is a permutation of the reference matches; unsorted cases (--no-sort, negated-only, empty query) keep input order, reversed under --tac; (2) structural: the relative order of adjacent output lines and of random sub-lists equals their order when filtered alone (partitioning + per-partition sort + lazy merge == one global sort), over lists of 0,1,99,100,101,3200,3201..60000 lines, --tail, 1/2/16 CPUs; (3) semantic: on lines containing exactly one occurrence of an exact term, order == score (reference linear evaluation) desc, then each --tiebreak criterion in the documented direction, then index (reversed under --tac); (4) access pattern: the real Matcher scans a real ChunkList snapshot (0..7000 items, 1..32 partitions, --tail-trimmed first chunks) twice; one Merger is read front to back, its twin through index probes (jump ahead then read on, random probes, increasing jumps, backwards, ends first, a window followed by a full read): every probe must return the item the sequential reader found at that position, and the sequential order must equal one single-threaded global sort. distinct = (list-size class, option set, query shape | tiebreak list, scheme) signatures"
	r.Assumptions = []string{"'end' is documented only as 'closer to the end': a pair is out of order only if the later line is better under both the absolute and the relative reading", "'pathname': lines whose match lies in the file name come first; among those, pairs with different distances to the last separator are not ordered by this oracle", "sub-list consistency uses lists of distinct lines"}
	if _, err := fzfrun.Bin(); err != nil {
		r.Inconclusive(err.Error())
		r.Floor("orders_checked", 1)
		return r.Finish()
	}
	r.Fanout("c04", vk.NumWorkers(), 40*time.Minute)
	r.Fanout("c04access", vk.NumWorkers(), 30*time.Minute)
	r.Floor("access_cases", 200)
	r.Floor("orders_checked", 200)
	r.Floor("pairs_checked", 1000)
	r.Floor("semantic_pairs", 1000)
	r.Floor("large_lists", 4)
	return r.Finish()
}

func uniq(lines []string) []string {
	seen := map[string]bool{}
	var out []string
	for _, l := range lines {
		if !seen[l] {
			seen[l] = true
			out = append(out, l)
		}
	}
	return out
}

// restrict returns the elements of seq that are in set, in order.
func restrict(seq []string, set map[string]bool) []string {
	var out []string
	for _, s := range seq {
		if set[s] {
			out = append(out, s)
		}
	}
	return out
}

func eqStrings(a, b []string) bool {
	if len(a) != len(b) {
		return false
	}
	for i := range a {
		if a[i] != b[i] {
			return false
		}
	}
	return true
}

// subCheck: filtering the sub-list (indices ascending) must give the full output restricted to it.
func subCheck(r *vk.Run, prop string, lines []string, argv []string, full []string, idx []int) bool {
	sub := make([]string, len(idx))
	set := map[string]bool{}
	for i, k := range idx {
		sub[i] = lines[k]
		set[lines[k]] = true
	}
	got, _, err := fzfrun.Lib(argv, sub)
	if err != nil {
		r.Inconclusive("fzf.Run failed on a sub-list: " + err.Error())
		return true
	}
	want := restrict(full, set)
	r.Count("pairs_checked", 1)
	if !eqStrings(got, want) {
		r.Violate(vk.Violation{Summary: fmt.Sprintf("%s: fzf %s: filtering the sub-list %q gives %q, the full result restricted to it is %q", prop, quoteArgs(argv), trunc(sub), trunc(got), trunc(want)),
			Witness: map[string]any{"args": argv, "sub_list": sub, "sub_output": got, "full_restricted": want, "full_list_size": len(lines)}})
		return false
	}
	return true
}

func trunc(xs []string) []string {
	if len(xs) > 6 {
		return append(append([]string{}, xs[:6]...), fmt.Sprintf("...(%d)", len(xs)))
	}
	return xs
}

var sizeClasses = []int{0, 1, 2, 30, 99, 100, 101, 199, 200, 201, 450}
var largeClasses = []int{3199, 3200, 3201, 3300, 6401, 20000, 60000}

func workerC04(r *vk.Run, w, n int, args []string) {
	rng := rand.New(rand.NewSource(r.Seed*424243 + int64(w)*101 + 3))
	g := NewGen(rng, w)
	bin, _ := fzfrun.Bin()
	runs := 48000
	if !r.Quick() {
		runs = 1600000
	}
	per := runs / n
	for i := 0; i < per; i++ {
		size := sizeClasses[rng.Intn(len(sizeClasses))]
		large := false
		if i%(per/2+1) == 1 { // two large lists per worker in quick, more in thorough via per
			size = largeClasses[rng.Intn(len(largeClasses))]
			large = true
		}
		if !r.Quick() && i%40 == 1 {
			size = largeClasses[rng.Intn(len(largeClasses))]
			large = true
		}
		lines := uniq(g.Lines(size, 14))
		o := g.Options()
		o.Ref.Extended = true
		var argsNoX []string
		for _, a := range o.Args {
			if a != "+x" {
				argsNoX = append(argsNoX, a)
			}
		}
		var q, qsig string
		switch rng.Intn(8) {
		case 0:
			q, qsig = "", "empty"
		case 1:
			q, qsig = "!"+g.Body(), "negated-only"
		default:
			q, qsig = g.QueryFor(lines)
		}
		argv := append([]string{"--filter", q}, argsNoX...)
		tail := 0
		if rng.Intn(5) == 0 && len(lines) > 3 {
			tail = 1 + rng.Intn(len(lines))
			argv = append(argv, fmt.Sprintf("--tail=%d", tail))
		}
		vk.SetCase(map[string]any{"args": argv, "n": len(lines)})
		var got []string
		mode := "lib"
		if i%10 == 9 {
			// process level under a CPU mask so that 8 / 16 / 32 worker partitions occur
			cpus := []string{"0", "0-1", "0-15"}[rng.Intn(3)]
			mode = "proc cpus=" + cpus
			cmd := exec.Command("taskset", append([]string{"-c", cpus, bin}, argv...)...)
			cmd.Env = fzfrun.CleanEnv()
			cmd.Stdin = strings.NewReader(joinLines(lines))
			out, err := cmd.Output()
			if ee, ok := err.(*exec.ExitError); ok && ee.ExitCode() > 1 || err != nil && !ok {
				r.Violate(vk.Violation{Summary: fmt.Sprintf("C04: fzf %s failed: %v", quoteArgs(argv), err), Witness: map[string]any{"args": argv, "lines": len(lines)}})
				continue
			}
			got = splitLines(out)
			r.Count("proc_runs", 1)
		} else {
			var err error
			got, _, err = fzfrun.Lib(argv, lines)
			if err != nil {
				r.Violate(vk.Violation{Summary: fmt.Sprintf("C04: fzf.Run failed: %v args=%q", err, argv), Witness: map[string]any{"args": argv}})
				continue
			}
		}
		r.Eval(1)
		if large {
			r.Count("large_lists", 1)
		}
		// reference matches, in input order (after --tail trimming)
		eff := lines
		// --tail keeps the last N records (C06 checks that; F5 was repaired)
		sortable := true
		rq := refq.Parse(q, o.Ref)
		if !rq.Sortable() || o.NoSort {
			sortable = false
		}
		if tail > 0 && len(lines) > tail {
			eff = lines[len(lines)-tail:]
		}
		var want []string
		for _, l := range eff {
			if rq.Matches(l, nil) {
				want = append(want, l)
			}
		}
		r.Count("orders_checked", 1)
		sz := "small"
		if len(lines) >= 100 {
			sz = "multi-chunk"
		}
		if large {
			sz = "multi-partition"
		}
		r.Distinct(fmt.Sprintf("%s / %s / %s / tail%v / sortable%v", sz, o.Sig, qsig, tail > 0, sortable))
		wit := map[string]any{"mode": mode, "args": argv, "query": q, "list_size": len(lines), "output_head": trunc(got), "expected_set_size": len(want)}
		if len(lines) <= 60 {
			wit["lines"] = lines
			wit["output"] = got
		}
		missing, extra := diffMultiset(got, want)
		if len(missing) > 0 || len(extra) > 0 {
			wit["missing"], wit["extra"] = trunc(missing), trunc(extra)
			r.Violate(vk.Violation{Summary: fmt.Sprintf("C04: fzf %s over %d lines: output is not a permutation of the matches (missing %d, extra %d): missing=%q extra=%q", quoteArgs(argv), len(lines), len(missing), len(extra), trunc(missing), trunc(extra)), Witness: wit})
			continue
		}
		if !sortable {
			exp := want
			if o.Tac {
				exp = make([]string, len(want))
				for k := range want {
					exp[len(want)-1-k] = want[k]
				}
			}
			if !eqStrings(got, exp) {
				r.Violate(vk.Violation{Summary: fmt.Sprintf("C04: fzf %s over %d lines: unsorted result is not in input order (tac=%v)", quoteArgs(argv), len(lines), o.Tac), Witness: wit})
			}
			continue
		}
		// structural: adjacent pairs and one random sub-list must keep their order when filtered alone
		pos := map[string]int{}
		for k, l := range eff {
			pos[l] = k
		}
		argvNoTail := argv
		if tail > 0 {
			argvNoTail = argv[:len(argv)-1]
		}
		if len(got) >= 2 {
			np := 4
			if large {
				np = 12
			}
			ok := true
			for k := 0; k < np && ok; k++ {
				a := rng.Intn(len(got) - 1)
				ia, ib := pos[got[a]], pos[got[a+1]]
				idx := []int{ia, ib}
				sort.Ints(idx)
				ok = subCheck(r, "C04", eff, argvNoTail, got, idx)
			}
			if ok {
				m := 2 + rng.Intn(6)
				if m > len(eff) {
					m = len(eff)
				}
				idx := rng.Perm(len(eff))[:m]
				sort.Ints(idx)
				subCheck(r, "C04", eff, argvNoTail, got, idx)
			}
		}
		if i%400 == 3 {
			r.Sample(wit)
		}
	}
	semantic(r, rng, w, n, g.Scheme)
}

// ---- semantic monitor -----------------------------------------------------------

type semLine struct {
	text   string
	idx    int
	score  int
	begin  int // rune offset of the occurrence
	end    int
	length int // trimmed length
	chunk  int
	inName bool
	dist   int
	white  int // leading whitespace
}

var fillerAlpha = []rune{'a', 'b', 'c', 'A', '/', '-', '_', ' ', ' ', '1', '.'}

func semantic(r *vk.Run, rng *rand.Rand, w, n int, scheme string) {
	if scheme == "" {
		scheme = "default"
	}
	rounds := 640
	if !r.Quick() {
		rounds = 40000
	}
	per := rounds/n + 1
	critNames := []string{"length", "begin", "end", "chunk", "pathname"}
	for it := 0; it < per; it++ {
		// tiebreak list: 1..3 distinct criteria, optionally index at the end
		perm := rng.Perm(len(critNames))
		k := 1 + rng.Intn(3)
		var tb []string
		for _, p := range perm[:k] {
			tb = append(tb, critNames[p])
		}
		tac := rng.Intn(4) == 0
		nl := 60 + rng.Intn(400)
		seen := map[string]bool{}
		var lines []string
		for len(lines) < nl {
			L := rng.Intn(14)
			rs := make([]rune, L)
			for i := range rs {
				rs[i] = fillerAlpha[rng.Intn(len(fillerAlpha))]
			}
			p := rng.Intn(L + 1)
			s := string(rs[:p]) + "xq" + string(rs[p:])
			if rng.Intn(6) == 0 {
				s = "  " + s
			}
			if rng.Intn(6) == 0 {
				s = s + " "
			}
			if !seen[s] {
				seen[s] = true
				lines = append(lines, s)
			}
		}
		// the same ranking must result when the positive term is accompanied by terms that do not contribute to the score
		semQ := []string{"'xq", "'xq", "!zzzz 'xq", "'xq !zzzz", "'xq | 'zzzz", "!zzzz | 'zzzz 'xq"}[rng.Intn(6)]
		argv := []string{"--filter", semQ, "--scheme=" + scheme, "--tiebreak=" + strings.Join(tb, ",")}
		if tac {
			argv = append(argv, "--tac")
		}
		vk.SetCase(map[string]any{"args": argv, "n": len(lines)})
		got, _, err := fzfrun.Lib(argv, lines)
		if err != nil {
			r.Inconclusive("semantic: " + err.Error())
			continue
		}
		r.Eval(1)
		var sch *algochk.Scheme
		for i := range algochk.Schemes {
			if algochk.Schemes[i].Name == scheme {
				sch = &algochk.Schemes[i]
			}
		}
		info := map[string]*semLine{}
		for i, l := range lines {
			info[l] = describe(sch, l, i)
		}
		if len(got) != len(lines) {
			r.Violate(vk.Violation{Summary: fmt.Sprintf("C04: semantic workload: %d of %d lines emitted", len(got), len(lines)), Witness: map[string]any{"args": argv}})
			continue
		}
		r.Distinct("sem " + scheme + " " + strings.Join(tb, ",") + fmt.Sprintf(" tac%v ", tac) + semQ)
		for i := 0; i+1 < len(got); i++ {
			a, b := info[got[i]], info[got[i+1]]
			r.Count("semantic_pairs", 1)
			if why := outOfOrder(a, b, tb, tac); why != "" {
				r.Violate(vk.Violation{Summary: fmt.Sprintf("C04: fzf %s: %q is listed before %q but %s", quoteArgs(argv), a.text, b.text, why),
					Witness: map[string]any{"args": argv, "first": a, "second": b, "first_desc": fmt.Sprintf("%+v", *a), "second_desc": fmt.Sprintf("%+v", *b), "position": i}})
				break
			}
		}
		if it == 0 {
			r.Sample(map[string]any{"semantic": true, "args": argv, "lines": len(lines), "head": trunc(got)})
		}
	}
}

func describe(sch *algochk.Scheme, l string, idx int) *semLine {
	rs := []rune(l)
	low := []rune(strings.ToLower(l))
	p := strings.Index(string(low), "xq")
	begin := len([]rune(string(low)[:p]))
	B := sch.Bonuses(rs)
	score, _, _ := algochk.GreedyLinear(B, low, []rune("xq"), begin, begin+2)
	d := &semLine{text: l, idx: idx, score: score, begin: begin, end: begin + 2}
	lead, trail := 0, 0
	for lead < len(rs) && unicode.IsSpace(rs[lead]) {
		lead++
	}
	for trail < len(rs)-lead && unicode.IsSpace(rs[len(rs)-1-trail]) {
		trail++
	}
	d.white = lead
	d.length = len(rs) - lead - trail
	cb, ce := begin, begin+2
	for cb > 0 && !unicode.IsSpace(rs[cb-1]) {
		cb--
	}
	for ce < len(rs) && !unicode.IsSpace(rs[ce]) {
		ce++
	}
	d.chunk = ce - cb
	last := -1
	for i, c := range rs {
		if c == '/' {
			last = i
		}
	}
	d.inName = last <= begin
	d.dist = begin - last
	return d
}

// outOfOrder: a is listed before b; returns why that contradicts the documented order ("" = fine or undecidable).
func outOfOrder(a, b *semLine, tb []string, tac bool) string {
	if a.score != b.score {
		if a.score < b.score {
			return fmt.Sprintf("its score %d is lower than %d", a.score, b.score)
		}
		return ""
	}
	for _, c := range tb {
		switch c {
		case "length":
			if a.length != b.length {
				if a.length > b.length {
					return fmt.Sprintf("same score and it is longer (%d > %d) under tiebreak=length", a.length, b.length)
				}
				return ""
			}
		case "chunk":
			if a.chunk != b.chunk {
				if a.chunk > b.chunk {
					return fmt.Sprintf("same score and its matched chunk is longer (%d > %d)", a.chunk, b.chunk)
				}
				return ""
			}
		case "begin":
			ab, bb := a.begin-a.white, b.begin-b.white
			if ab != bb {
				if ab > bb {
					return fmt.Sprintf("same score and its match begins later (%d > %d)", ab, bb)
				}
				return ""
			}
		case "end":
			// absolute reading: distance of the match end from the end of the trimmed line;
			// relative reading: that distance relative to the length. Decide only if both agree.
			da, db := a.white+a.length-a.end, b.white+b.length-b.end
			// relative reading: where the match ends as a fraction of the line (larger = closer to the end)
			ra, rb := float64(a.end-a.white)/float64(a.length+1), float64(b.end-b.white)/float64(b.length+1)
			if da > db && ra < rb {
				return fmt.Sprintf("same score and its match ends farther from the end (%d > %d characters left, at %.2f vs %.2f of the line)", da, db, ra, rb)
			}
			if da < db && ra > rb {
				return ""
			}
			return "" // readings disagree or tie: not decided by this oracle
		case "pathname":
			if a.inName != b.inName {
				if !a.inName {
					return "same score and only the later line matches in the file name"
				}
				return ""
			}
			if a.inName && a.dist != b.dist {
				return "" // finer ordering inside the file name is not documented
			}
		}
	}
	if a.idx > b.idx != tac {
		return fmt.Sprintf("all criteria tie and input positions are %d, %d (tac=%v)", a.idx, b.idx, tac)
	}
	return ""
}

// ---- C05 sub-list phase -----------------------------------------------------------

// MainC05Sub is run by the C05 check after the in-process metamorphic phase.
func C05SubPhase(r *vk.Run) {
	if _, err := fzfrun.Bin(); err != nil {
		r.Inconclusive(err.Error())
		return
	}
	r.Fanout("c05sub", vk.NumWorkers(), 30*time.Minute)
	r.Floor("pairs_checked", 500)
	C05PatternPhase(r)
}

func workerC05Sub(r *vk.Run, w, n int, args []string) {
	rng := rand.New(rand.NewSource(r.Seed*99991 + int64(w)*17 + 5))
	g := NewGen(rng, w)
	runs := 1600
	if !r.Quick() {
		runs = 100000
	}
	per := runs / n
	for i := 0; i < per; i++ {
		size := []int{5, 20, 60, 150, 250, 420}[rng.Intn(6)]
		lines := uniq(g.Lines(size, 12))
		o := g.Options()
		var argsNoX []string
		for _, a := range o.Args {
			if a != "+x" {
				argsNoX = append(argsNoX, a)
			}
		}
		q, qsig := g.QueryFor(lines)
		argv := append([]string{"--filter", q}, argsNoX...)
		if rng.Intn(3) == 0 {
			// field-restricted matching: per-item token caches must not leak from one line to the next
			argv = append(argv, [][]string{{"--nth", "1"}, {"--nth", "2"}, {"--nth", "2.."}, {"--nth", "-1"}, {"--nth", "1", "--delimiter", "/"}, {"--nth", "2..", "--delimiter", "-"}}[rng.Intn(6)]...)
			qsig += " nth"
		}
		vk.SetCase(map[string]any{"args": argv, "lines": lines})
		full, _, err := fzfrun.Lib(argv, lines)
		if err != nil {
			r.Inconclusive(err.Error())
			continue
		}
		r.Eval(1)
		r.Distinct("sub " + o.Sig + " / " + qsig)
		for k := 0; k < 3; k++ {
			m := 1 + rng.Intn(len(lines))
			idx := rng.Perm(len(lines))[:m]
			sort.Ints(idx)
			if !subCheck(r, "C05", lines, argv, full, idx) {
				break
			}
		}
	}
}

#!/usr/bin/env python3
"""seedkeep.py <name>...: copy verified seeded changes from /tmp/seed/out/<name> to /verif/seeded/<name>/ with meta.json."""
import sys, os, shutil, json, re
for name in sys.argv[1:]:
    src = f"/tmp/seed/out/{name}"; dst = f"/verif/seeded/{name}"
    os.makedirs(dst, exist_ok=True)
    for f in os.listdir(src):
        if os.path.isfile(os.path.join(src, f)):
            shutil.copy2(os.path.join(src, f), os.path.join(dst, f))
    notes = open(os.path.join(src, "notes.md")).read() if os.path.exists(os.path.join(src, "notes.md")) else ""
    meta_path = os.path.join(dst, "meta.json")
    meta = json.load(open(meta_path)) if os.path.exists(meta_path) else {}
    meta.update({
        "id": name,
        "property": name.split("-")[0],
        "files_touched": sorted(set(re.findall(r"^\+\+\+ b/(\S+)", open(os.path.join(src, "patch.diff")).read(), re.M))),
        "needs_to_manifest": "see notes.md (written by the independent sub-agent that produced the change)",
        "confirmed_by": "scripts/seedverify.sh in a scratch worktree of /repo HEAD: demo passes without the patch; patch applies; go build ./... ok; pinned suite (go test -vet=off -count=1 ./...) passes; demo fails (exit 1) with the patch",
        "origin": "fresh sub-agent given only the property text and its own worktree",
    })
    meta.setdefault("runs", [])
    json.dump(meta, open(meta_path, "w"), indent=1)
    print("kept", name)

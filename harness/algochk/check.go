package algochk

import (
	"fmt"
	"math/rand"
	"sort"
	"strings"
	"unicode/utf8"

	"github.com/junegunn/fzf/src/algo"
	"github.com/junegunn/fzf/src/util"

	"verif/harness/vk"
)

// Matcher identifiers
const (
	mV1 = iota
	mV2
	mExact
	mBoundary
	mPrefix
	mSuffix
	mEqual
	numMatchers
)

var matcherNames = []string{"v1", "v2", "exact", "boundary", "prefix", "suffix", "equal"}
var matcherFuncs = []algo.Algo{algo.FuzzyMatchV1, algo.FuzzyMatchV2, algo.ExactMatchNaive, algo.ExactMatchBoundary, algo.PrefixMatch, algo.SuffixMatch, algo.EqualMatch}

// Case is one matcher call, fully described (it is the replay witness).
type Case struct {
	Scheme   string `json:"scheme"`
	Matcher  string `json:"matcher"`
	Text     string `json:"text"`
	TextQ    string `json:"text_quoted"`
	Runes    bool   `json:"runes_repr"` // text forced into the runes representation
	Pattern  string `json:"pattern"`
	PatternQ string `json:"pattern_quoted"`
	CS       bool   `json:"case_sensitive"`
	Norm     bool   `json:"normalize"`
	Fwd      bool   `json:"forward"`
	WithPos  bool   `json:"with_pos"`
	Slab     string `json:"slab"` // nil | fresh | dirty | small
}

type outcome struct {
	res algo.Result
	pos []int
	has bool // pos != nil
}

func mkChars(text []rune, forceRunes bool) util.Chars {
	if forceRunes {
		cp := make([]rune, len(text))
		copy(cp, text)
		return util.RunesToChars(cp)
	}
	return util.ToChars([]byte(string(text)))
}

func call(m int, text []rune, forceRunes bool, pat []rune, cs, norm, fwd, withPos bool, slab *util.Slab) outcome {
	chars := mkChars(text, forceRunes)
	p := make([]rune, len(pat))
	copy(p, pat)
	res, pos := matcherFuncs[m](cs, norm, fwd, &chars, p, withPos, slab)
	o := outcome{res: res}
	if pos != nil {
		o.has = true
		o.pos = append([]int(nil), (*pos)...)
	}
	return o
}

type checker struct {
	r                          *vk.Run
	prop                       string
	scheme                     *Scheme
	rng                        *rand.Rand
	dirty                      *util.Slab
	fresh                      func() *util.Slab
	small                      *util.Slab
	n                          int
	force                      int
	clean                      *util.Slab
	cleanDirty16, cleanDirty32 int
}

func newChecker(r *vk.Run, prop string, rng *rand.Rand) *checker {
	c := &checker{r: r, prop: prop, rng: rng}
	c.dirty = util.MakeSlab(100*1024, 2048)
	c.small = util.MakeSlab(64, 16)
	return c
}

func (c *checker) scribble(s *util.Slab) {
	// stale contents: extreme values and random garbage
	mode := c.rng.Intn(4)
	n16 := len(s.I16)
	lim := n16
	if lim > 4096 && c.rng.Intn(8) != 0 {
		lim = 4096 // the part short inputs use; full scribble occasionally
	}
	for i := 0; i < lim; i++ {
		switch mode {
		case 0:
			s.I16[i] = 32767
		case 1:
			s.I16[i] = -32768
		case 2:
			s.I16[i] = int16(c.rng.Intn(65536) - 32768)
		default:
			s.I16[i] = int16(c.rng.Intn(64))
		}
	}
	for i := range s.I32 {
		s.I32[i] = int32(c.rng.Uint32())
	}
}

func (c *checker) violate(key, what string, cs Case, got outcome, extra map[string]any) {
	w := map[string]any{"case": cs, "got": map[string]any{"start": got.res.Start, "end": got.res.End, "score": got.res.Score, "pos": got.pos}}
	for k, v := range extra {
		w[k] = v
	}
	c.r.Violate(vk.Violation{Key: key, Summary: fmt.Sprintf("%s: %s matcher=%s scheme=%s text=%q pattern=%q cs=%v norm=%v fwd=%v runes=%v pos=%v slab=%s -> %+v %v",
		c.prop, what, cs.Matcher, cs.Scheme, cs.Text, cs.Pattern, cs.CS, cs.Norm, cs.Fwd, cs.Runes, cs.WithPos, cs.Slab, got.res, got.pos), Witness: w})
}

func mkCase(sch *Scheme, m int, text []rune, forceRunes bool, pat []rune, cs, norm, fwd, withPos bool, slab string) Case {
	t, p := string(text), string(pat)
	if len(t) > 300 {
		t = t[:300] + fmt.Sprintf("...(%d runes)", len(text))
	}
	if len(p) > 300 {
		p = p[:300] + fmt.Sprintf("...(%d runes)", len(pat))
	}
	return Case{Scheme: sch.Name, Matcher: matcherNames[m], Text: t, TextQ: fmt.Sprintf("%+q", t), Runes: forceRunes, Pattern: p, PatternQ: fmt.Sprintf("%+q", p),
		CS: cs, Norm: norm, Fwd: fwd, WithPos: withPos, Slab: slab}
}

// one evaluates one (text, pattern, flags) on every matcher, applying the
// oracles of the property under check.
func (c *checker) one(text []rune, pat []rune, cs, norm, fwd bool, heavy bool) {
	sch := c.scheme
	folded := Fold(text, cs, norm)
	N, M := len(text), len(pat)
	var B []int
	for m := 0; m < numMatchers; m++ {
		forceRunes := c.rng.Intn(3) == 0
		withPos := c.rng.Intn(2) == 0
		slabKind := c.rng.Intn(4)
		if c.force > 0 { // the long class enumerates slab kind x position tracking
			slabKind, withPos = (c.force-1)%4, (c.force-1)/4 == 1
		}
		var slab *util.Slab
		slabName := "nil"
		switch slabKind {
		case 1:
			slab, slabName = c.dirty, "dirty"
			c.scribble(slab)
		case 2:
			slab, slabName = c.small, "small"
			c.scribble(slab)
		case 3:
			slab, slabName = c.dirty, "dirty-unscribbled"
		}
		k := mkCase(sch, m, text, forceRunes, pat, cs, norm, fwd, withPos, slabName)
		vk.SetCase(k)
		got := call(m, text, forceRunes, pat, cs, norm, fwd, withPos, slab)
		c.r.Eval(1)
		c.n++
		if c.n%200003 == 7 {
			c.r.Sample(map[string]any{"case": k, "result": map[string]any{"start": got.res.Start, "end": got.res.End, "score": got.res.Score, "pos": got.pos}})
		}
		switch c.prop {
		case "C02":
			c.witness(m, k, text, folded, pat, got)
		case "C03":
			if B == nil {
				B = sch.Bonuses(text)
			}
			c.score(m, k, text, folded, pat, B, got, slab, heavy)
		case "C05":
			c.pure(m, k, text, pat, got)
		}
		_ = N
		_ = M
	}
}

func sig(prop string, m int, matched bool, N, M int, flags ...bool) string {
	var sb strings.Builder
	sb.WriteString(matcherNames[m])
	if matched {
		sb.WriteString("+")
	} else {
		sb.WriteString("-")
	}
	for _, f := range flags {
		if f {
			sb.WriteByte('1')
		} else {
			sb.WriteByte('0')
		}
	}
	fmt.Fprintf(&sb, "N%dM%d", bucket(N), bucket(M))
	return sb.String()
}

func bucket(n int) int {
	switch {
	case n <= 8:
		return n
	case n <= 16:
		return 16
	case n <= 64:
		return 64
	case n <= 300:
		return 300
	case n <= 4096:
		return 4096
	}
	return 70000
}

// ---------------------------------------------------------------- C02 witness

func (c *checker) witness(m int, k Case, text, folded, pat []rune, got outcome) {
	N, M := len(text), len(pat)
	res := got.res
	matched := res.Start >= 0
	if M > 0 {
		c.r.Distinct(sig("C02", m, matched, N, M, k.CS, k.Norm, k.Fwd, k.Runes, k.WithPos, k.Slab != "nil") + k.Scheme + classSig(text, pat))
	}
	if M == 0 {
		// a term body is never empty in fzf; only sanity is demanded
		if matched && (res.Start > res.End || res.End > N) {
			c.violate("", "empty pattern: range outside the text", k, got, nil)
		}
		return
	}
	if matched {
		if res.Start > res.End || res.End > N || res.Start < 0 {
			c.violate("", "range outside the text", k, got, nil)
			return
		}
	} else if got.has {
		c.violate("", "positions returned with a non-match", k, got, nil)
	}
	switch m {
	case mV1, mV2:
		exists := IsSubseq(folded, pat)
		if !matched {
			if exists {
				key := ""
				if m == mV2 && !k.CS && foldGap(text, pat, k.Norm) {
					key = "F4-v2-nonLu-lowercase"
				}
				c.violate(key, "reported no match but the pattern is a subsequence", k, got, nil)
			}
			return
		}
		if !exists {
			c.violate("", "reported a match but no witness exists", k, got, nil)
			return
		}
		if !IsSubseq(folded[res.Start:res.End], pat) {
			c.violate("", "reported range contains no witness", k, got, nil)
		}
		if k.WithPos {
			if !got.has {
				c.violate("", "positions requested but not returned", k, got, nil)
				return
			}
			pos := append([]int(nil), got.pos...)
			sort.Ints(pos)
			if len(pos) != M {
				c.violate("", "number of positions differs from the pattern length", k, got, nil)
				return
			}
			for i, p := range pos {
				if p < res.Start || p >= res.End || p < 0 || p >= N {
					c.violate("", "position outside the reported range", k, got, nil)
					return
				}
				if i > 0 && pos[i-1] >= p {
					c.violate("", "positions not strictly increasing", k, got, nil)
					return
				}
				if folded[p] != pat[i] {
					c.violate("", "position does not hold the query character", k, got, map[string]any{"index": i})
					return
				}
			}
		}
	case mExact, mBoundary:
		occ := Occurrences(folded, pat)
		if m == mBoundary {
			var f []int
			for _, s := range occ {
				if BoundaryOK(text, s, s+M) {
					f = append(f, s)
				}
			}
			occ = f
		}
		if !matched {
			if len(occ) > 0 {
				key := ""
				if m == mBoundary && !k.Fwd && M > 1 {
					key = "F6-boundary-backward"
				}
				c.violate(key, "reported no match but an occurrence exists", k, got, map[string]any{"occurrences": occ})
			}
			return
		}
		if res.End-res.Start != M {
			c.violate("", "range length differs from the pattern length", k, got, nil)
			return
		}
		ok := false
		for _, s := range occ {
			if s == res.Start {
				ok = true
			}
		}
		if !ok {
			c.violate("", "reported range is not an occurrence satisfying the anchor", k, got, map[string]any{"occurrences": occ})
		}
	case mPrefix, mSuffix, mEqual:
		lead, trail := LeadingSpace(text), TrailingSpace(text)
		if isSpaceRune(pat[0]) {
			lead = 0
		}
		if isSpaceRune(pat[M-1]) {
			trail = 0
		}
		var expS int
		var exp bool
		switch m {
		case mPrefix:
			expS = lead
			exp = lead+M <= N && eq(folded[lead:lead+M], pat)
		case mSuffix:
			expS = N - trail - M
			exp = expS >= 0 && eq(folded[expS:expS+M], pat)
		case mEqual:
			expS = lead
			exp = N-lead-trail == M && eq(folded[lead:lead+M], pat)
		}
		if matched != exp {
			c.violate("", fmt.Sprintf("anchored match disagrees with the reference (expected match=%v at %d)", exp, expS), k, got, nil)
			return
		}
		if matched && (res.Start != expS || res.End != expS+M) {
			c.violate("", fmt.Sprintf("anchored range differs (expected [%d,%d))", expS, expS+M), k, got, nil)
		}
	}
}

// foldGap: some rune of the text has a lower-case mapping although it is not an
// upper-case letter (title-case, letter-number...) and the pattern needs that mapping.
func foldGap(text, pat []rune, norm bool) bool {
	for _, r := range text {
		if r > 127 && !isUpper(r) && foldRune(r, false, norm) != foldRune(r, true, norm) {
			return true
		}
	}
	return false
}

func eq(a, b []rune) bool {
	if len(a) != len(b) {
		return false
	}
	for i := range a {
		if a[i] != b[i] {
			return false
		}
	}
	return true
}

func classSig(text, pat []rune) string {
	// which character classes occur: distinguishes workloads
	var mask int
	for _, r := range text {
		mask |= 1 << uint(Schemes[0].class(r))
		if r > 127 {
			mask |= 1 << 8
		}
		if r == utf8.RuneError {
			mask |= 1 << 9
		}
	}
	return fmt.Sprintf("c%x", mask)
}

package vk

import (
	"bytes"
	"encoding/json"
	"fmt"
	"os"
	"os/exec"
	"path/filepath"
	"runtime"
	"strconv"
	"strings"
	"sync"
	"time"
)

// Scratch returns the per-invocation scratch directory (created by ./check, removed on exit).
func Scratch() string {
	if d := os.Getenv("VERIF_SCRATCH"); d != "" {
		return d
	}
	d, _ := os.MkdirTemp("", "verif-scratch-")
	os.Setenv("VERIF_SCRATCH", d)
	return d
}

// NumWorkers is the number of worker processes to use.
func NumWorkers() int {
	if s := os.Getenv("VERIF_WORKERS"); s != "" {
		if n, err := strconv.Atoi(s); err == nil && n > 0 {
			return n
		}
	}
	n := runtime.NumCPU()
	if n > 16 {
		n = 16
	}
	return n
}

// WorkerFunc is the body of a worker: w = worker index, n = number of workers.
type WorkerFunc func(r *Run, w, n int, args []string)

var workerFuncs = map[string]WorkerFunc{}

// RegisterWorker registers the worker body for (property, name).
func RegisterWorker(name string, f WorkerFunc) { workerFuncs[name] = f }

// current case of the worker, dumped when the worker panics
var (
	curMu   sync.Mutex
	curCase any
)

// SetCase records the case about to be evaluated (cheap; no I/O). A recovered
// panic reports it as the witness.
func SetCase(c any) {
	curMu.Lock()
	curCase = c
	curMu.Unlock()
}

// RunWorkerMain is called by main for `vh worker <name> <id> <tier> <seed> <w> <n> <out> [args...]`.
func RunWorkerMain(argv []string) int {
	if len(argv) < 7 {
		fmt.Fprintln(os.Stderr, "worker: bad args")
		return 2
	}
	name, id, tier := argv[0], argv[1], argv[2]
	seed, _ := strconv.ParseInt(argv[3], 10, 64)
	w, _ := strconv.Atoi(argv[4])
	n, _ := strconv.Atoi(argv[5])
	out := argv[6]
	f := workerFuncs[name]
	if f == nil {
		fmt.Fprintf(os.Stderr, "worker: unknown %q\n", name)
		return 2
	}
	r := NewWorker(id, tier, seed)
	func() {
		defer func() {
			if e := recover(); e != nil {
				buf := make([]byte, 16384)
				buf = buf[:runtime.Stack(buf, false)]
				curMu.Lock()
				c := curCase
				curMu.Unlock()
				r.Violate(Violation{Key: "", Summary: fmt.Sprintf("panic in worker %s/%d: %v", name, w, e),
					Witness: map[string]any{"panic": fmt.Sprint(e), "case": c, "stack": string(buf)}})
			}
		}()
		f(r, w, n, argv[7:])
	}()
	data, err := json.Marshal(r.Export())
	if err != nil {
		fmt.Fprintf(os.Stderr, "worker: marshal: %v\n", err)
		return 2
	}
	if err := os.WriteFile(out, data, 0o644); err != nil {
		fmt.Fprintf(os.Stderr, "worker: write: %v\n", err)
		return 2
	}
	return 0
}

// Fanout runs n worker processes of the current binary and merges their results
// into r. A worker that dies without a result file (fatal error, kill) is a
// violation carrying its stderr tail; a worker that exceeds the watchdog is
// inconclusive.
func (r *Run) Fanout(name string, n int, watchdog time.Duration, args ...string) {
	r.FanoutBin(os.Args[0], name, n, watchdog, args...)
}

func (r *Run) FanoutBin(bin string, name string, n int, watchdog time.Duration, args ...string) {
	scr := Scratch()
	var wg sync.WaitGroup
	for w := 0; w < n; w++ {
		wg.Add(1)
		go func(w int) {
			defer wg.Done()
			out := filepath.Join(scr, fmt.Sprintf("part-%s-%s-%d-%d.json", r.ID, name, os.Getpid(), w))
			os.Remove(out)
			a := append([]string{"worker", name, r.ID, r.Tier, strconv.FormatInt(r.Seed, 10), strconv.Itoa(w), strconv.Itoa(n), out}, args...)
			cmd := exec.Command(bin, a...)
			cmd.Env = append(os.Environ(), "VERIF_WORKER_INDEX="+strconv.Itoa(w))
			var stderr bytes.Buffer
			cmd.Stderr = &stderr
			cmd.Stdout = &stderr
			if err := cmd.Start(); err != nil {
				r.Inconclusive(fmt.Sprintf("worker %s/%d did not start: %v", name, w, err))
				return
			}
			done := make(chan error, 1)
			go func() { done <- cmd.Wait() }()
			var err error
			select {
			case err = <-done:
			case <-time.After(watchdog):
				cmd.Process.Signal(os.Interrupt)
				time.Sleep(200 * time.Millisecond)
				cmd.Process.Kill()
				<-done
				r.Inconclusive(fmt.Sprintf("worker %s/%d exceeded watchdog %v", name, w, watchdog))
				return
			}
			data, rerr := os.ReadFile(out)
			os.Remove(out)
			if rerr != nil {
				tail := stderr.String()
				if len(tail) > 6000 {
					tail = tail[len(tail)-6000:]
				}
				crash := strings.Contains(tail, "fatal error:") || strings.Contains(tail, "panic:") || strings.Contains(tail, "DATA RACE") || strings.Contains(tail, "checkptr")
				if crash {
					r.Violate(Violation{Key: "", Summary: fmt.Sprintf("worker %s/%d crashed: %v", name, w, err),
						Witness: map[string]any{"worker": name, "index": w, "of": n, "args": args, "stderr_tail": tail}})
				} else {
					r.Inconclusive(fmt.Sprintf("worker %s/%d left no result (%v): %s", name, w, err, oneLine(tail, 300)))
				}
				return
			}
			var p Partial
			if jerr := json.Unmarshal(data, &p); jerr != nil {
				r.Inconclusive(fmt.Sprintf("worker %s/%d result unreadable: %v", name, w, jerr))
				return
			}
			r.Merge(p)
			if s := stderr.String(); strings.Contains(s, "WARNING: DATA RACE") {
				r.Extra("race_stderr_"+name+"_"+strconv.Itoa(w), oneLine(s, 4000))
			}
		}(w)
	}
	wg.Wait()
}

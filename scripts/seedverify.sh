#!/bin/bash
# seedverify.sh <seed-dir>: confirm a seeded change in a scratch worktree of /repo's HEAD:
#  demo passes without it; patch applies; builds; pinned suite passes; demo fails with it.
# Prints one line "VERIFIED <name>" or "REJECTED <name> <why>"; worktree removed afterwards.
d="${1:?seed dir}"; name="$(basename "$d")"
export GOFLAGS=-mod=mod GOPROXY=off GOSUMDB=off GOTOOLCHAIN=local
wt="/tmp/seedv/$name"
rm -rf "$wt"; mkdir -p /tmp/seedv
git -C /repo worktree add --detach "$wt" HEAD >/dev/null 2>&1 || { echo "REJECTED $name worktree"; exit 1; }
fin() { git -C /repo worktree remove --force "$wt" >/dev/null 2>&1; rm -rf "$wt"; }
trap fin EXIT
log="/tmp/seedv/$name.log"; : > "$log"
( cd "$wt" && timeout 600 bash "$d/demo.sh" "$wt" ) >>"$log" 2>&1; rc0=$?
[ $rc0 -eq 0 ] || { echo "REJECTED $name demo-without-patch rc=$rc0"; exit 1; }
git -C "$wt" checkout -q -- . ; git -C "$wt" clean -fdq
if ! git -C "$wt" apply "$d/patch.diff" >>"$log" 2>&1; then
  git -C "$wt" apply --3way "$d/patch.diff" >>"$log" 2>&1 || { echo "REJECTED $name patch-does-not-apply"; exit 1; }
fi
( cd "$wt" && go build ./... ) >>"$log" 2>&1 || { echo "REJECTED $name build"; exit 1; }
( cd "$wt" && go test -vet=off -count=1 ./... ) >>"$log" 2>&1 || { echo "REJECTED $name pinned-suite-fails"; exit 1; }
( cd "$wt" && timeout 600 bash "$d/demo.sh" "$wt" ) >>"$log" 2>&1; rc1=$?
[ $rc1 -eq 1 ] || { echo "REJECTED $name demo-with-patch rc=$rc1"; exit 1; }
git -C "$wt" diff > "/tmp/seedv/$name.rebased.diff" 2>/dev/null
echo "VERIFIED $name"

package main

import (
	"fmt"
	"os"
	"time"

	"verif/harness/tty"
)

func main() {
	os.Setenv("VERIF_SCRATCH", "/tmp/probe-scr")
	os.MkdirAll("/tmp/probe-scr", 0o755)
	s, err := tty.Start(tty.StartOpts{InputCmd: "seq 5000", Cols: 100, Rows: 30})
	if err != nil {
		fmt.Println("start:", err)
		return
	}
	defer s.Close()
	st, ok := s.WaitQuiescent(10 * time.Second)
	fmt.Println("initial", ok, st != nil)
	for round := 0; round < 5; round++ {
		s.Post("execute-silent(sleep 0.15)")
		s.Post("put(1)")
		s.Post("toggle-sort")
		s.Post("put(2)")
		t0 := time.Now()
		st, ok = s.WaitQuiescent(8 * time.Second)
		fmt.Println("round", round, ok, time.Since(t0), "posted", s.Posted)
		if !ok {
			for _, e := range s.Trace()[len(s.Trace())-14:] {
				fmt.Printf("  %s(%d,%d,%s)\n", e.Kind, e.A, e.B, e.S)
			}
			st2, err := s.Get(10)
			fmt.Println(st2, err)
		}
	}
}

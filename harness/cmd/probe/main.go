package main

import (
	"fmt"
	"verif/harness/fzfrun"
)

func main() {
	lines := []string{" xqa.AA_cb/a", "xq"}
	for i := 0; i < 3; i++ {
		out, code, err := fzfrun.Lib([]string{"--filter", "'xq", "--scheme=default", "--tiebreak=chunk,pathname,end"}, lines)
		fmt.Printf("%q %d %v\n", out, code, err)
		out, code, err = fzfrun.Lib([]string{"--filter", "'xq", "--scheme=path", "--tiebreak=length"}, lines)
		fmt.Printf("%q %d %v\n", out, code, err)
	}
}

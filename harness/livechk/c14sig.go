package livechk

import (
	"fmt"
	"math/rand"
	"strings"
	"syscall"
	"time"

	"verif/harness/tty"
	"verif/harness/vk"
)

// Directed signal sessions of C14: SIGINT / SIGTERM must end the session whenever no foreground
// command is running, whatever was done before. The history mixes commands that ran and finished,
// commands that were *refused* (an item placeholder with nothing to expand: empty list or a query
// without matches), transforms and reloads; the signal is sent at trace-defined quiescence.
// fzf deliberately drops SIGINT while an `execute` owns the terminal, so the signal is only sent
// when every posted batch has been consumed and every started command has returned.
func signalSession(r *vk.Run, rng *rand.Rand, idx int) {
	var input string
	nitems := []int{0, 0, 1, 30}[rng.Intn(4)]
	for i := 0; i < nitems; i++ {
		input += fmt.Sprintf("item %d\n", i)
	}
	fzfArgs := []string{"--no-mouse"}
	if rng.Intn(2) == 0 {
		fzfArgs = append(fzfArgs, "--multi")
	}
	if rng.Intn(3) == 0 {
		fzfArgs = append(fzfArgs, "--preview=echo {}")
	}
	if rng.Intn(3) == 0 {
		fzfArgs = append(fzfArgs, "--bind", "f1:execute(true {})")
	}
	s, err := tty.Start(tty.StartOpts{Args: fzfArgs, Input: []byte(input), Cols: 80, Rows: 20, Seed: r.Seed})
	wit := func(extra map[string]any) map[string]any {
		m := map[string]any{"fzf_args": fzfArgs, "items": nitems, "cols": 80, "rows": 20}
		for k, v := range extra {
			m[k] = v
		}
		return m
	}
	if s == nil || err != nil {
		r.Inconclusive("start: " + fmt.Sprint(err))
		if s != nil {
			s.Close()
		}
		return
	}
	defer s.Close()
	var hist []string
	pool := []string{
		"execute-silent(true {})", "execute(true {})", "execute-multi(true {+})", "execute-silent(true {1})", "execute(true {+f})",
		"execute-silent(true)", "execute(true)", "transform-query(echo q)", "transform(echo up)", "reload(seq 3)", "reload-sync(seq 2)",
		"change-query(no-such-thing-zq)", "change-query()", "execute-silent(true {q})", "become(true {})", "refresh-preview", "up", "toggle-all",
	}
	steps := 1 + rng.Intn(6)
	for k := 0; k < steps; k++ {
		a := pool[rng.Intn(len(pool))]
		if strings.HasPrefix(a, "become") {
			// become with an item placeholder is refused when there is nothing to expand; otherwise it would end the session
			st, err := s.Get(5)
			if err != nil || st.MatchCount > 0 {
				continue
			}
		}
		s.Post(a)
		hist = append(hist, "POST "+a)
		if _, ok := s.WaitQuiescent(20 * time.Second); !ok {
			if _, exited := s.ExitCode(); exited {
				r.Violate(vk.Violation{Summary: fmt.Sprintf("C14: the session ended by itself after %q", a), Witness: wit(map[string]any{"history": hist, "stderr": clipDump(s.Stderr())})})
				return
			}
			r.Inconclusive("signal session: no quiescence: " + s.LastWait)
			return
		}
	}
	if crashRe.MatchString(s.Stderr()) {
		r.Violate(vk.Violation{Summary: "C14: fzf crashed in a signal session: " + firstLines(s.Stderr(), 3), Witness: wit(map[string]any{"history": hist, "stderr": clipDump(s.Stderr())})})
		return
	}
	sig, name, exp := syscall.SIGINT, "sigint", map[int]bool{130: true}
	if rng.Intn(3) == 0 {
		sig, name, exp = syscall.SIGTERM, "sigterm", map[int]bool{130: true, 143: true}
	}
	hist = append(hist, "END "+name)
	exited := false
	for attempt := 0; attempt < 3 && !exited; attempt++ {
		s.Signal(sig)
		_, exited = s.WaitExit(8 * time.Second)
	}
	r.Count("signal_sessions", 1)
	r.Distinct(fmt.Sprintf("signal %s items%d steps%d", name, nitems, steps))
	if !exited {
		if s.FzfPid() == 0 {
			r.Inconclusive("signal session: fzf is gone but no exit status was recorded")
			return
		}
		// alive after three deliveries: a verdict only if fzf is demonstrably idle and responsive
		if st, err := s.Get(5); err == nil && st != nil {
			procs := fmt.Sprintf("%+v", s.SessionProcs())
			s.Signal(syscall.SIGQUIT)
			s.WaitExit(3 * time.Second)
			r.Violate(vk.Violation{Summary: fmt.Sprintf("C14: %s delivered three times is ignored although no command is running (fzf still answers GET); history %v", name, hist),
				Witness: wit(map[string]any{"history": hist, "processes": procs, "goroutine_dump": clipDump(s.Stderr())})})
			return
		}
		hangVerdict(r, s, wit, hist)
		return
	}
	rc, _ := s.ExitCode()
	r.Eval(1)
	if !exp[rc] {
		r.Violate(vk.Violation{Summary: fmt.Sprintf("C14: exit status %d after %s (history %v)", rc, name, hist), Witness: wit(map[string]any{"history": hist, "stderr": clipDump(s.Stderr())})})
		return
	}
	finalChecks(r, s, wit, hist, name, rc, false)
}

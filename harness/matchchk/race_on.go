//go:build race

package matchchk

func raceEnabledNote() string { return "harness and fzf packages built with -race" }

const raceEnabled = true

#!/usr/bin/env python3
"""Regenerates /verif/MANIFEST.json from the table below (kept in one place so the
manifest stays valid while checks are added)."""
import json, os, subprocess

V = os.path.dirname(os.path.dirname(os.path.abspath(__file__)))

CHECKS = {
    "C02": dict(engine="E-algo",
                technique="runtime monitor: witness/completeness oracle over exported matcher calls (exhaustive short strings + random + long inputs), crash-isolated worker processes",
                text="Every call of the seven exported matchers in the workload is observed and decided by an independent witness checker (positions, range, anchor, folding) and a brute-force completeness check; exhaustive for short strings over a class-covering alphabet, random and long (70k runes / 1.2k pattern) otherwise. Says nothing about inputs not generated.",
                note="Trusted: Go's unicode tables, fzf's accent table content, the reference folding (unicode.ToLower per rune). Pattern pre-conditions are those the query parser guarantees.",
                ref="4/C02"),
    "C03": dict(engine="E-algo",
                technique="runtime monitor: reference-model comparison (whole-line int evaluation of the scoring recurrence, embedding enumeration as upper bound, linear/closed-form scoring for the exact family)",
                text="Each observed score is compared with an unoptimised re-evaluation of the documented recurrence (no window, slab, int16 or offset arithmetic) inside the domain N*M<=102400, bounded above by the best enumerated alignment for short inputs; V1/exact/prefix/suffix by linear evaluation of the reported occurrence, equal/boundary by closed form.",
                note="The reference recurrence transcribes the documented programme; a misconception shared with the implementation would go unnoticed. F7 (single-character early exit) is a listed known finding.",
                ref="4/C03"),
    "C05": dict(engine="E-algo",
                technique="runtime monitor: metamorphic equality under adversarial slab histories, representation and withPos changes; sub-list consistency at process level",
                text="Every call made after an arbitrary history on a shared slab (stale contents, extreme values) must equal the same call with nil/fresh slab, the other text representation and the other withPos setting; process level: filtering a sub-list equals the full result restricted to it.",
                note="V2 with a slab smaller than N*M is a documented fallback and excluded from nil-vs-slab equality. F12 (Start without positions) is a listed known finding.",
                ref="4/C05"),
}

NOT_YET = {}

def main():
    props = [json.loads(l) for l in open(os.path.join(V, "properties.jsonl"))]
    checks = []
    na = []
    for p in props:
        pid = p["id"]
        c = CHECKS.get(pid)
        if not c:
            na.append({"property_id": pid, "reason": NOT_YET.get(pid, "check not built yet in this session (work in progress); no claim is made")})
            continue
        checks.append({
            "property_id": pid,
            "quick_cmd": f"./check {pid} quick",
            "thorough_cmd": f"./check {pid} thorough",
            "evidence_file": f"/verif/evidence/{pid}.json",
            "replay_cmd_template": "cat {path}",
            "engine": c["engine"],
            "level_claimed": {"category": "exploration", "text": c["text"], "design_ref": "DESIGN.md section " + c["ref"]},
            "level_note": c["note"],
            "technique": c["technique"],
        })
    commits = subprocess.run(["git", "-C", "/repo", "log", "--format=%h %s", "664abd0..HEAD"], capture_output=True, text=True).stdout.strip().split("\n")
    hooks = [c.split()[0] for c in commits if c and c.split(" ", 1)[1].startswith("verif:")]
    m = {
        "version": 1,
        "setup_cmd": "cd /verif/harness && GOFLAGS=-mod=mod GOPROXY=off GOSUMDB=off GOTOOLCHAIN=local go build -tags verif -o /dev/null ./cmd/vh",
        "hooks": {
            "guard": "verif (Go build tag)",
            "enable": "go build -tags verif (harness module /verif/harness has `replace github.com/junegunn/fzf => /repo`; ./check rebuilds harness and fzf from /repo's working tree on every run)",
            "baseline_off_cmd": "cd /repo && GOFLAGS=-mod=mod GOPROXY=off GOSUMDB=off GOTOOLCHAIN=local go test -vet=off -count=1 -timeout 25m ./...",
            "source_commits": hooks,
            "add_only": True,
        },
        "engines": [
            {"name": "E-algo", "path": "harness/algochk", "serves_properties": ["C02", "C03", "C05"], "kind_free_text": "in-process calls of exported algo.* matchers from worker processes, reference oracles"},
        ],
        "checks": checks,
        "not_applicable": na,
        "notes": "Technique family: runtime monitoring. Every check observes executions of code built from /repo's working tree; verdicts read 'held on what was observed'. known_findings.json lists genuine deviations (known) and repaired ones (fixed).",
    }
    json.dump(m, open(os.path.join(V, "MANIFEST.json"), "w"), indent=1)
    print("checks:", [c["property_id"] for c in checks], "not_applicable:", len(na))

main()

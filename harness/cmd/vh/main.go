// vh is the single harness binary: `vh <property> <tier>` runs a check,
// `vh worker ...` is the re-exec entry of worker processes.
package main

import (
	"fmt"
	"os"

	"verif/harness/algochk"
	"verif/harness/ansichk"
	"verif/harness/fieldchk"
	"verif/harness/filterchk"
	"verif/harness/histchk"
	"verif/harness/httpchk"
	"verif/harness/livechk"
	"verif/harness/matchchk"
	"verif/harness/optchk"
	"verif/harness/phchk"
	"verif/harness/readchk"
	"verif/harness/vk"
	"verif/harness/walkchk"
)

var checks = map[string]func(prop, tier string) int{
	"C01": filterchk.MainC01,
	"C02": algochk.Main,
	"C03": algochk.Main,
	"C04": filterchk.MainC04,
	"C05": func(p, t string) int { return algochk.MainWith(p, t, filterchk.C05SubPhase) },
	"C06": readchk.Main,
	"C07": livechk.MainC07,
	"C08": livechk.MainC08,
	"C09": livechk.MainC09,
	"C10": fieldchk.Main,
	"C12": phchk.Main,
	"C13": matchchk.MainC13,
	"C14": livechk.MainC14,
	"C15": livechk.MainC15,
	"C16": httpchk.Main,
	"C17": optchk.Main,
	"C18": histchk.Main,
	"C19": walkchk.Main,
	"C20": livechk.MainC20,
	"C11": ansichk.Main,
}

func main() {
	if len(os.Args) >= 2 && os.Args[1] == "worker" {
		os.Exit(vk.RunWorkerMain(os.Args[2:]))
	}
	if len(os.Args) < 3 {
		fmt.Fprintln(os.Stderr, "usage: vh <property> quick|thorough")
		os.Exit(2)
	}
	prop, tier := os.Args[1], os.Args[2]
	f := checks[prop]
	if f == nil {
		fmt.Fprintf(os.Stderr, "no check for %s\n", prop)
		os.Exit(2)
	}
	os.Exit(f(prop, tier))
}

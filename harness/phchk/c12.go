// Package phchk decides C12: placeholders expand to shell words that a real
// /bin/sh and bash evaluate back to the original text; the tmux re-launch path
// re-quotes arguments and environment faithfully.
package phchk

import (
	"bytes"
	"fmt"
	"math/rand"
	"os"
	"os/exec"
	"path/filepath"
	"regexp"
	"strings"
	"time"

	fzf "github.com/junegunn/fzf/src"

	"verif/harness/fzfrun"
	"verif/harness/vk"
)

func init() {
	vk.RegisterWorker("c12", worker)
	vk.RegisterWorker("c12tmux", workerTmux)
}

func Main(prop, tier string) int {
	r := vk.New("C12", tier)
	r.Rule = "(a) templates `printf '%s\\0' <placeholders>` over {} {q} {+} {n} {+n} {N} {-N} {A..B} {sN} {+N} {q:N} {fzf:query} {fzf:prompt} \\{} with item/query texts drawn from every shell metacharacter, quotes, backslashes, newlines, tabs, globs, $(), backticks, leading dashes, multi-byte text and command-injection payloads; 1-4 selected items; AWK and literal delimiters; $SHELL / --with-shell combinations; the expansion is handed to the real /bin/sh and bash and the NUL-separated argv is compared with the expected words; a canary file must never appear. (b) tmux re-launch: fzf started with TMUX set, a fake `tmux` first on PATH that runs the generated script with sh, and argv[0] pointing at a recorder: the recorded arguments and exported variables must be byte-identical to what was given (values with every metacharacter, empty values and harmless-looking values as words of their own). (c) real sessions: `--bind load:pos(K)+become(printf ... {n} {})` / `select-all+become(... {+n})` under --header-lines / --with-nth / --tail: the ordinal and the text handed to the shell must be those of the record at that position. distinct = (set of placeholder forms, shell, payload classes) signatures"
	r.Assumptions = []string{"texts contain no NUL byte", "{r} (raw) and {f} (file) forms are unquoted by definition and excluded from the quoting claim", "field placeholders trim surrounding whitespace unless the s flag is given and drop the trailing delimiter (documented)", "fish is not installed: the fish quoting dialect is only checked for not being selected when --with-shell names another shell"}
	if _, err := fzfrun.Bin(); err != nil {
		r.Inconclusive(err.Error())
		r.Floor("shell_runs", 1)
		return r.Finish()
	}
	r.Fanout("c12", vk.NumWorkers(), 30*time.Minute)
	r.Fanout("c12tmux", vk.NumWorkers(), 30*time.Minute)
	r.Fanout("c12proc", vk.NumWorkers(), 30*time.Minute)
	r.Floor("ordinal_sessions", 10)
	r.Floor("shell_runs", 1000)
	r.Floor("words_compared", 3000)
	r.Floor("tmux_relaunches", 10)
	return r.Finish()
}

var payload = []string{"a", "b c", " lead", "trail ", "x\ty", "line1\nline2", "'", "''", "\"", "\\", "\\\\", "'\\''", "$HOME", "$(touch canary)", "`touch canary`", "; touch canary;", "'; touch canary; '", "\"; touch canary; \"", "*", "?", "[a-z]", "{a,b}", "~", "-n", "--help", "-", "é", "日本 語", "&", "|", "<", ">", "(", ")", "!", "#", "%", "\r", "a,b", ",", ",x,", "$'\\n'", "\\'", "x'y\"z", "${IFS}", "$((1+1))", "\x01", "\x7f", "=", "a=b"}

func genText(rng *rand.Rand) (string, string) {
	n := 1 + rng.Intn(3)
	var sb strings.Builder
	cls := ""
	for i := 0; i < n; i++ {
		k := rng.Intn(len(payload))
		sb.WriteString(payload[k])
		if i < n-1 && rng.Intn(2) == 0 {
			sb.WriteString(" ")
		}
		switch {
		case strings.ContainsAny(payload[k], "'\""):
			cls += "q"
		case strings.Contains(payload[k], "\\"):
			cls += "b"
		case strings.Contains(payload[k], "\n"):
			cls += "n"
		case strings.Contains(payload[k], "canary"):
			cls += "c"
		case strings.ContainsAny(payload[k], "$`*?[{~"):
			cls += "m"
		}
	}
	return sb.String(), cls
}

// reference field splitting for the two delimiters used here
var awkField = regexp.MustCompile(`[^ \t]+[ \t]*`)

// Fields: reference field splitting (AWK when delim is empty, else literal delimiter).
func Fields(s string, delim string) []string {
	if delim == "" {
		return awkField.FindAllString(strings.TrimLeft(s, " \t"), -1)
	}
	return strings.SplitAfter(s, delim)
}

// Sel: reference field selection (1-based, negative from the end, 0 = open).
func Sel(fs []string, a, b int, single bool) string {
	n := len(fs)
	norm := func(i int) int {
		if i < 0 {
			return n + 1 + i
		}
		return i
	}
	lo, hi := 1, n
	if single {
		lo, hi = norm(a), norm(a)
	} else {
		if a != 0 {
			lo = norm(a)
		}
		if b != 0 {
			hi = norm(b)
		}
	}
	var sb strings.Builder
	for i := lo; i <= hi; i++ {
		if i >= 1 && i <= n {
			sb.WriteString(fs[i-1])
		}
	}
	return sb.String()
}

// listWord: a comma list of expressions selects the concatenation of the selected fields (each with
// its trailing delimiter); only the very last delimiter is dropped.
func listWord(s, delim string, preserve bool, sels ...[3]int) string {
	fs := Fields(s, delim)
	out := ""
	for _, x := range sels {
		out += Sel(fs, x[0], x[1], x[2] == 1)
	}
	if delim != "" {
		out = strings.TrimSuffix(out, delim)
	}
	if !preserve {
		out = strings.TrimSpace(out)
	}
	return out
}

func fieldWord(s, delim string, a, b int, single, preserve bool) string {
	out := Sel(Fields(s, delim), a, b, single)
	if delim != "" {
		out = strings.TrimSuffix(out, delim)
	}
	if !preserve {
		out = strings.TrimSpace(out)
	}
	return out
}

type ph struct {
	text string
	exp  func(cur string, curIdx int, selected []string, selIdx []int, query, prompt, delim string) []string
}

var phs = []ph{
	{"{}", func(c string, ci int, s []string, si []int, q, p, d string) []string { return []string{c} }},
	{"{q}", func(c string, ci int, s []string, si []int, q, p, d string) []string { return []string{q} }},
	{"{fzf:query}", func(c string, ci int, s []string, si []int, q, p, d string) []string { return []string{q} }},
	{"{fzf:prompt}", func(c string, ci int, s []string, si []int, q, p, d string) []string { return []string{p} }},
	{"{+}", func(c string, ci int, s []string, si []int, q, p, d string) []string { return s }},
	{"{n}", func(c string, ci int, s []string, si []int, q, p, d string) []string { return []string{fmt.Sprint(ci)} }},
	{"{+n}", func(c string, ci int, s []string, si []int, q, p, d string) []string {
		var o []string
		for _, i := range si {
			o = append(o, fmt.Sprint(i))
		}
		return o
	}},
	{"{1}", func(c string, ci int, s []string, si []int, q, p, d string) []string {
		return []string{fieldWord(c, d, 1, 1, true, false)}
	}},
	{"{2}", func(c string, ci int, s []string, si []int, q, p, d string) []string {
		return []string{fieldWord(c, d, 2, 2, true, false)}
	}},
	{"{-1}", func(c string, ci int, s []string, si []int, q, p, d string) []string {
		return []string{fieldWord(c, d, -1, -1, true, false)}
	}},
	{"{2..}", func(c string, ci int, s []string, si []int, q, p, d string) []string {
		return []string{fieldWord(c, d, 2, 0, false, false)}
	}},
	{"{..2}", func(c string, ci int, s []string, si []int, q, p, d string) []string {
		return []string{fieldWord(c, d, 0, 2, false, false)}
	}},
	{"{s1}", func(c string, ci int, s []string, si []int, q, p, d string) []string {
		return []string{fieldWord(c, d, 1, 1, true, true)}
	}},
	{"{s..}", func(c string, ci int, s []string, si []int, q, p, d string) []string {
		return []string{fieldWord(c, d, 0, 0, false, true)}
	}},
	{"{+1}", func(c string, ci int, s []string, si []int, q, p, d string) []string {
		var o []string
		for _, x := range s {
			o = append(o, fieldWord(x, d, 1, 1, true, false))
		}
		return o
	}},
	{"{+s2..}", func(c string, ci int, s []string, si []int, q, p, d string) []string {
		var o []string
		for _, x := range s {
			o = append(o, fieldWord(x, d, 2, 0, false, true))
		}
		return o
	}},
	{"{1,3}", func(c string, ci int, s []string, si []int, q, p, d string) []string {
		return []string{listWord(c, d, false, [3]int{1, 1, 1}, [3]int{3, 3, 1})}
	}},
	{"{3,1}", func(c string, ci int, s []string, si []int, q, p, d string) []string {
		return []string{listWord(c, d, false, [3]int{3, 3, 1}, [3]int{1, 1, 1})}
	}},
	{"{1,3..}", func(c string, ci int, s []string, si []int, q, p, d string) []string {
		return []string{listWord(c, d, false, [3]int{1, 1, 1}, [3]int{3, 0, 0})}
	}},
	{"{+s1,-1}", func(c string, ci int, s []string, si []int, q, p, d string) []string {
		var o []string
		for _, x := range s {
			o = append(o, listWord(x, d, true, [3]int{1, 1, 1}, [3]int{-1, -1, 1}))
		}
		return o
	}},
	{"{q:1}", func(c string, ci int, s []string, si []int, q, p, d string) []string {
		return []string{fieldWord(q, "", 1, 1, true, false)}
	}},
	{"\\{}", func(c string, ci int, s []string, si []int, q, p, d string) []string { return []string{"{}"} }},
	{"\\{q}", func(c string, ci int, s []string, si []int, q, p, d string) []string { return []string{"{q}"} }},
	{"\\{n}", func(c string, ci int, s []string, si []int, q, p, d string) []string { return []string{"{n}"} }},
	{"\\{+n}", func(c string, ci int, s []string, si []int, q, p, d string) []string { return []string{"{+n}"} }},
	{"\\{+}", func(c string, ci int, s []string, si []int, q, p, d string) []string { return []string{"{+}"} }},
	{"\\{1}", func(c string, ci int, s []string, si []int, q, p, d string) []string { return []string{"{1}"} }},
	{"\\{-1}", func(c string, ci int, s []string, si []int, q, p, d string) []string { return []string{"{-1}"} }},
	{"\\{q:1}", func(c string, ci int, s []string, si []int, q, p, d string) []string { return []string{"{q:1}"} }},
	{"\\{fzf:query}", func(c string, ci int, s []string, si []int, q, p, d string) []string { return []string{"{fzf:query}"} }},
	{"\\{+s2..}", func(c string, ci int, s []string, si []int, q, p, d string) []string { return []string{"{+s2..}"} }},
	{"\\{nf}", func(c string, ci int, s []string, si []int, q, p, d string) []string { return []string{"{nf}"} }},
	{"\\{+nf}", func(c string, ci int, s []string, si []int, q, p, d string) []string { return []string{"{+nf}"} }},
}

func worker(r *vk.Run, w, n int, args []string) {
	rng := rand.New(rand.NewSource(r.Seed*12289 + int64(w)*53 + 7))
	dir := filepath.Join(vk.Scratch(), fmt.Sprintf("ph-%d-%d", os.Getpid(), w))
	os.MkdirAll(dir, 0o755)
	defer os.RemoveAll(dir)
	total := 48000
	if !r.Quick() {
		total = 480000
	}
	per := total / n
	for i := 0; i < per; i++ {
		ns := 1 + rng.Intn(4)
		var items []*fzf.Item
		var texts []string
		var idxs []int
		cls := ""
		for k := 0; k < ns; k++ {
			t, c := genText(rng)
			cls += c
			idx := rng.Intn(100000)
			texts = append(texts, t)
			idxs = append(idxs, idx)
			items = append(items, fzf.VerifNewItem(t, int32(idx)))
		}
		query, qc := genText(rng)
		prompt, _ := genText(rng)
		cls += qc
		delim := ""
		if rng.Intn(3) == 0 {
			delim = ","
		}
		// current item + selection (when nothing is selected the terminal passes the current item as the selection)
		cur, curIdx := texts[0], idxs[0]
		all := []*fzf.Item{items[0]}
		selTexts, selIdx := texts, idxs
		if rng.Intn(3) == 0 {
			selTexts, selIdx = texts[:1], idxs[:1]
			all = append(all, items[0])
		} else {
			all = append(all, items...)
		}
		np := 1 + rng.Intn(4)
		var tpl []string
		var want []string
		forms := ""
		for k := 0; k < np; k++ {
			p := phs[rng.Intn(len(phs))]
			tpl = append(tpl, p.text)
			forms += p.text
			want = append(want, p.exp(cur, curIdx, selTexts, selIdx, query, prompt, delim)...)
		}
		template := "printf '%s\\0' " + strings.Join(tpl, " ")
		// shells
		shellEnv := []string{"/bin/sh", "/bin/bash", "", "/usr/bin/fish"}[rng.Intn(4)]
		withShell := []string{"", "sh -c", "bash -c"}[rng.Intn(3)]
		if shellEnv == "/usr/bin/fish" && withShell == "" {
			withShell = "sh -c"
		}
		os.Setenv("SHELL", shellEnv)
		d := fzf.Delimiter{}
		if delim != "" {
			d = fzf.VerifDelimiter(delim)
		}
		vk.SetCase(map[string]any{"template": template, "items": texts, "query": query})
		expanded, temps := fzf.VerifReplacePlaceholder(template, false, d, "\n", false, query, all, prompt, withShell)
		for _, t := range temps {
			os.Remove(t)
		}
		r.Eval(1)
		r.Distinct(fmt.Sprintf("ph %s sh=%s ws=%s d=%q %s", forms, shellEnv, withShell, delim, dedupe(cls)))
		for _, sh := range []string{"/bin/sh", "/bin/bash"} {
			cdir := filepath.Join(dir, fmt.Sprintf("c%d", i))
			os.MkdirAll(cdir, 0o755)
			cmd := exec.Command(sh, "-c", expanded)
			cmd.Dir = cdir
			cmd.Env = []string{"PATH=/usr/bin:/bin", "HOME=" + cdir, "IFS= \t\n"}
			var so, se bytes.Buffer
			cmd.Stdout, cmd.Stderr = &so, &se
			err := cmd.Run()
			r.Count("shell_runs", 1)
			wit := map[string]any{"template": template, "items": texts, "selected": selTexts, "query": query, "prompt": prompt, "delimiter": delim, "SHELL": shellEnv, "with_shell": withShell,
				"expanded": expanded, "shell": sh, "stderr": se.String()}
			if _, cerr := os.Stat(filepath.Join(cdir, "canary")); cerr == nil {
				r.Violate(vk.Violation{Summary: fmt.Sprintf("C12: input data was executed as shell syntax (canary created): template %q items %q query %q -> %q", template, texts, query, expanded), Witness: wit})
				os.RemoveAll(cdir)
				break
			}
			ents, _ := os.ReadDir(cdir)
			os.RemoveAll(cdir)
			if err != nil {
				r.Violate(vk.Violation{Summary: fmt.Sprintf("C12: %s could not evaluate the expansion %q of %q (%v: %s)", sh, expanded, template, err, strings.TrimSpace(se.String())), Witness: wit})
				break
			}
			if len(ents) > 0 {
				r.Violate(vk.Violation{Summary: fmt.Sprintf("C12: the expansion of %q created files in the working directory", template), Witness: wit})
				break
			}
			got := strings.Split(so.String(), "\x00")
			if len(got) > 0 && got[len(got)-1] == "" {
				got = got[:len(got)-1]
			}
			wit["argv"], wit["expected_argv"] = got, want
			r.Count("words_compared", int64(len(want)))
			if !eq(got, want) {
				r.Violate(vk.Violation{Summary: fmt.Sprintf("C12: %s evaluates the expansion of %q to %q, expected %q (items %q, query %q, $SHELL=%q --with-shell=%q)", sh, template, got, want, texts, query, shellEnv, withShell), Witness: wit})
				break
			}
			if i%800 == 1 && sh == "/bin/sh" {
				r.Sample(wit)
			}
		}
	}
}

func dedupe(s string) string {
	seen := map[rune]bool{}
	var out []rune
	for _, c := range s {
		if !seen[c] {
			seen[c] = true
			out = append(out, c)
		}
	}
	return string(out)
}

func eq(a, b []string) bool {
	if len(a) != len(b) {
		return false
	}
	for i := range a {
		if a[i] != b[i] {
			return false
		}
	}
	return true
}

// ---- tmux re-launch path

const fakeTmux = `#!/bin/sh
# fake tmux: run the command handed to display-popup (last two words: <sh> <script>)
for a in "$@"; do prev2="$prev"; prev="$a"; done
exec "$prev2" "$prev"
`

const recorder = `#!/bin/sh
# argv/environment recorder standing in for the re-launched fzf
out="$VERIF_RECORD"
: > "$out.args"
for a in "$@"; do printf '%s\0' "$a" >> "$out.args"; done
printf '%s' "$VERIF_HOSTILE" > "$out.env"
printf '%s' "$VERIF_EQ" > "$out.env2"
exit 0
`

func workerTmux(r *vk.Run, w, n int, args []string) {
	rng := rand.New(rand.NewSource(r.Seed*4447 + int64(w)*59 + 1))
	bin, _ := fzfrun.Bin()
	dir := filepath.Join(vk.Scratch(), fmt.Sprintf("tmuxpath-%d-%d", os.Getpid(), w))
	os.MkdirAll(filepath.Join(dir, "bin"), 0o755)
	defer os.RemoveAll(dir)
	os.WriteFile(filepath.Join(dir, "bin", "tmux"), []byte(fakeTmux), 0o755)
	rec := filepath.Join(dir, "recorder")
	os.WriteFile(rec, []byte(recorder), 0o755)
	total := 640
	if !r.Quick() {
		total = 4800
	}
	per := total/n + 1
	for i := 0; i < per; i++ {
		var given []string
		na := 1 + rng.Intn(4)
		for k := 0; k < na; k++ {
			t, _ := genText(rng)
			switch rng.Intn(7) {
			case 0:
				given = append(given, "--prompt="+t)
			case 1:
				given = append(given, "--header", t)
			case 2:
				given = append(given, "--query="+t)
			case 3:
				given = append(given, "--preview", t)
			case 4:
				given = append(given, "--border-label="+t)
			case 5:
				// empty and harmless-looking values as words of their own
				given = append(given, []string{"--query", "--prompt", "--header", "--ghost"}[rng.Intn(4)], []string{"", "", "a", "a-b_c.d/e", ">", "*"}[rng.Intn(6)])
			default:
				given = append(given, []string{"--pointer", "--marker"}[rng.Intn(2)], []string{"", ">", "*", "=>"}[rng.Intn(4)])
			}
		}
		tm := []string{"--tmux", "--tmux=center,50%", "--tmux=bottom,30%,border-native"}[rng.Intn(3)]
		argv := append([]string{tm}, given...)
		hostile, _ := genText(rng)
		eqval := "rs=0:di=01;34:" + hostile
		out := filepath.Join(dir, fmt.Sprintf("rec%d", i))
		cmd := exec.Command(bin, argv...)
		cmd.Args = append([]string{rec}, argv...)
		cmd.Env = []string{"PATH=" + filepath.Join(dir, "bin") + ":/usr/bin:/bin", "TMUX=/tmp/fake,1,0", "TMUX_PANE=%0", "HOME=" + dir, "SHELL=/bin/sh", "TERM=screen", "TMPDIR=" + dir,
			"VERIF_RECORD=" + out, "VERIF_HOSTILE=" + hostile, "VERIF_EQ=" + eqval}
		cmd.Stdin = nil
		var se bytes.Buffer
		cmd.Stderr = &se
		cmd.Dir = dir
		done := make(chan error, 1)
		if err := cmd.Start(); err != nil {
			r.Inconclusive("tmux path: " + err.Error())
			continue
		}
		go func() { done <- cmd.Wait() }()
		select {
		case <-done:
		case <-time.After(30 * time.Second):
			cmd.Process.Kill()
			<-done
			r.Inconclusive("tmux re-launch did not finish")
			continue
		}
		r.Eval(1)
		data, err := os.ReadFile(out + ".args")
		wit := map[string]any{"given_args": argv, "hostile_env": hostile, "stderr": se.String()}
		if err != nil {
			r.Inconclusive("recorder was not run: " + se.String())
			continue
		}
		r.Count("tmux_relaunches", 1)
		got := strings.Split(string(data), "\x00")
		if len(got) > 0 && got[len(got)-1] == "" {
			got = got[:len(got)-1]
		}
		wit["recorded_args"] = got
		// the given arguments must appear verbatim, contiguous and in order
		found := false
		for s := 0; s+len(argv) <= len(got); s++ {
			if eq(got[s:s+len(argv)], argv) {
				found = true
				break
			}
		}
		r.Distinct(fmt.Sprintf("tmux %s n%d", tm, na))
		if !found {
			r.Violate(vk.Violation{Summary: fmt.Sprintf("C12: tmux re-launch delivered arguments %q, given %q", got, argv), Witness: wit})
			continue
		}
		envGot, _ := os.ReadFile(out + ".env")
		env2, _ := os.ReadFile(out + ".env2")
		os.Remove(out + ".args")
		os.Remove(out + ".env")
		os.Remove(out + ".env2")
		if string(envGot) != hostile || string(env2) != eqval {
			wit["recorded_env"] = string(envGot)
			wit["recorded_env2"] = string(env2)
			r.Violate(vk.Violation{Summary: fmt.Sprintf("C12: tmux re-launch exported %q / %q, the environment had %q / %q", envGot, env2, hostile, eqval), Witness: wit})
			continue
		}
		if _, cerr := os.Stat(filepath.Join(dir, "canary")); cerr == nil {
			os.Remove(filepath.Join(dir, "canary"))
			r.Violate(vk.Violation{Summary: "C12: tmux re-launch executed input data (canary created)", Witness: wit})
		}
		if i == 0 {
			r.Sample(wit)
		}
	}
}

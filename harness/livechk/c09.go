package livechk

import (
	"fmt"
	"math/rand"
	"path/filepath"
	"strings"
	"time"
	"unicode"

	"verif/harness/fzfrun"
	"verif/harness/tty"
	"verif/harness/vk"
)

func init() { vk.RegisterWorker("c09", workerC09) }

func MainC09(prop, tier string) int {
	r := vk.New("C09", tier)
	r.Rule = "interactive sessions driven through --listen, one action (or a short chain) per POST, state read with GET / after the batch was consumed (trace) and, after query edits, after search quiescence: histories of 10-80 actions over the editing actions (char motion, word motion, delete, kill-line/kill-word/backward-kill-word/unix-line-discard/unix-word-rubout, yank, put, change-/clear-/replace-query), navigation (up/down/first/last/pos(N)/page/half-page, --cycle) and selection (toggle, toggle-up/down/in/out, select, deselect, select-all, deselect-all, toggle-all, clear-selection) x lists of 0/1/3/200 items x window heights 5-40 x three layouts x --multi limits none/1/2/3/unlimited x info styles; compared with a reference model (readline buffer with kill ring, list cursor, ordered selection map). The cursor column is observed through where later insertions land. On accept, stdout must be the selection in selection order, else the current line. distinct = (action, layout, multi limit, cycle, list size) signatures"
	r.Assumptions = []string{"word = run of letters/digits for word motions and kill-word; whitespace-delimited for unix-word-rubout (documented readline behaviour)", "after a query edit the list cursor is re-anchored from the observed state (only the invariants 0<=position<matchCount and current==matches[position] are demanded at that point)", "toggle-up/toggle-down are generated only where the toggle succeeds (their behaviour at the --multi limit is not documented)"}
	if _, err := fzfrun.Bin(); err != nil {
		r.Inconclusive(err.Error())
		r.Floor("steps_compared", 1)
		return r.Finish()
	}
	r.Fanout("c09", vk.NumWorkers(), 90*time.Minute)
	r.Floor("steps_compared", 500)
	r.Floor("accepts_checked", 10)
	return r.Finish()
}

// ---- reference model

type editor struct {
	in     []rune
	cx     int
	yanked []rune
}

func alnum(r rune) bool { return unicode.IsLetter(r) || unicode.IsNumber(r) }
func isws(r rune) bool  { return r == ' ' || r == '\t' || r == '\n' || r == '\f' || r == '\r' }

func (e *editor) backWordPos() int {
	i := e.cx
	for i > 0 && !alnum(e.in[i-1]) {
		i--
	}
	for i > 0 && alnum(e.in[i-1]) {
		i--
	}
	return i
}

func (e *editor) fwdWordPos() int {
	i, n := e.cx, len(e.in)
	for i < n && !alnum(e.in[i]) {
		i++
	}
	for i < n && alnum(e.in[i]) {
		i++
	}
	return i
}

func (e *editor) del(from, to int, yank bool) {
	if yank {
		e.yanked = append([]rune(nil), e.in[from:to]...)
	}
	e.in = append(append([]rune(nil), e.in[:from]...), e.in[to:]...)
	e.cx = from
}

func (e *editor) insert(s []rune) {
	out := append([]rune(nil), e.in[:e.cx]...)
	out = append(out, s...)
	out = append(out, e.in[e.cx:]...)
	e.in = out
	e.cx += len(s)
}

// apply returns false if the action is not an editing action.
func (e *editor) apply(act, arg string) bool {
	switch act {
	case "backward-char":
		if e.cx > 0 {
			e.cx--
		}
	case "forward-char":
		if e.cx < len(e.in) {
			e.cx++
		}
	case "beginning-of-line":
		e.cx = 0
	case "end-of-line":
		e.cx = len(e.in)
	case "backward-word":
		e.cx = e.backWordPos()
	case "forward-word":
		e.cx = e.fwdWordPos()
	case "backward-delete-char":
		if e.cx > 0 {
			e.del(e.cx-1, e.cx, false)
		}
	case "delete-char":
		if e.cx < len(e.in) {
			cx := e.cx
			e.del(e.cx, e.cx+1, false)
			e.cx = cx
		}
	case "kill-line":
		if e.cx < len(e.in) {
			e.del(e.cx, len(e.in), true)
		}
	case "kill-word":
		if p := e.fwdWordPos(); p > e.cx {
			e.del(e.cx, p, true)
		}
	case "backward-kill-word":
		if e.cx > 0 {
			e.del(e.backWordPos(), e.cx, true)
		}
	case "unix-line-discard":
		if e.cx > 0 {
			e.del(0, e.cx, true)
		}
	case "unix-word-rubout":
		if e.cx > 0 {
			i := e.cx
			for i > 0 && isws(e.in[i-1]) {
				i--
			}
			for i > 0 && !isws(e.in[i-1]) {
				i--
			}
			e.del(i, e.cx, true)
		}
	case "yank":
		e.insert(e.yanked)
	case "put":
		e.insert([]rune(arg))
	case "change-query":
		e.in = []rune(arg)
		e.cx = len(e.in)
	case "clear-query":
		e.in, e.cx = nil, 0
	default:
		return false
	}
	return true
}

type selModel struct {
	order []int // item indices in selection order
	limit int   // 0 = multi disabled
}

func (s *selModel) has(i int) bool {
	for _, x := range s.order {
		if x == i {
			return true
		}
	}
	return false
}

func (s *selModel) add(i int) bool {
	if len(s.order) >= s.limit {
		return false
	}
	if s.has(i) {
		return true
	}
	s.order = append(s.order, i)
	return true
}

func (s *selModel) remove(i int) {
	for k, x := range s.order {
		if x == i {
			s.order = append(s.order[:k:k], s.order[k+1:]...)
			return
		}
	}
}

var editActs = []string{"backward-char", "forward-char", "beginning-of-line", "end-of-line", "backward-word", "forward-word", "backward-delete-char", "delete-char", "kill-line", "kill-word", "backward-kill-word", "unix-line-discard", "unix-word-rubout", "yank", "put", "put", "put", "change-query", "clear-query"}
var navActs = []string{"up", "down", "up", "down", "first", "last", "pos", "page-up", "page-down", "half-page-up", "half-page-down"}
var selActs = []string{"toggle", "toggle", "toggle-up", "toggle-down", "toggle-in", "toggle-out", "select", "deselect", "select-all", "deselect-all", "toggle-all", "clear-selection"}
var putBits = []string{"a", "b", "1", "2", " ", "-", "ab", "é", "x1", "日", ".", "_"}

func workerC09(r *vk.Run, w, n int, args []string) {
	rng := rand.New(rand.NewSource(r.Seed*6007 + int64(w)*137 + 9))
	sessions := 800
	if !r.Quick() {
		sessions = 15000
	}
	per := sessions/n + 1
	for i := 0; i < per; i++ {
		sessionC09(r, rng, w, i)
	}
}

func sessionC09(r *vk.Run, rng *rand.Rand, wkr, idx int) {
	nitems := []int{0, 1, 3, 200, 200, 200}[rng.Intn(6)]
	var lines []string
	for i := 0; i < nitems; i++ {
		lines = append(lines, fmt.Sprintf("item-%03d %s", i, []string{"ab", "ba", "a1", "b2", "x"}[i%5]))
	}
	layout := []string{"default", "reverse", "reverse-list"}[rng.Intn(3)]
	rows := 5 + rng.Intn(36)
	if rng.Intn(6) == 0 {
		rows = 3 + rng.Intn(2) // one or two item lines: page moves must still move
	}
	limit := []int{0, 1, 2, 3, 1 << 30}[rng.Intn(5)]
	cycle := rng.Intn(3) == 0
	inline := rng.Intn(3) == 0
	fzfArgs := []string{"--layout=" + layout, "--no-mouse"}
	switch {
	case limit == 1<<30:
		fzfArgs = append(fzfArgs, "--multi")
	case limit > 0:
		fzfArgs = append(fzfArgs, fmt.Sprintf("--multi=%d", limit))
	}
	if cycle {
		fzfArgs = append(fzfArgs, "--cycle")
	}
	promptLines := 2
	if inline {
		fzfArgs = append(fzfArgs, "--info=inline")
		promptLines = 1
	}
	initQuery := ""
	track := rng.Intn(4) == 0
	if track {
		fzfArgs = append(fzfArgs, "--track")
	}
	noInput := rng.Intn(6) == 0
	if noInput {
		// the input section (prompt and info) is hidden and the query cannot be edited: navigation and
		// selection must work as ever, over the whole window
		fzfArgs = append(fzfArgs, "--no-input")
		promptLines = 0
		if rng.Intn(2) == 0 {
			fzfArgs = append(fzfArgs, "--query", "a1")
			initQuery = "a1"
		}
	}
	maxItems := rows - promptLines
	if maxItems < 0 {
		maxItems = 0
	}
	s, err := tty.Start(tty.StartOpts{Args: fzfArgs, Input: []byte(joinLines(lines)), Cols: 80, Rows: rows, Seed: r.Seed})
	if err != nil {
		r.Inconclusive("start: " + err.Error())
		if s != nil {
			s.Close()
		}
		return
	}
	defer s.Close()
	st, ok := s.WaitQuiescent(30 * time.Second)
	if !ok {
		r.Inconclusive("no initial quiescence: " + s.LastWait)
		return
	}
	ed := &editor{in: []rune(initQuery), cx: len([]rune(initQuery))}
	sel := &selModel{limit: limit}
	cy := st.Position
	L := st.MatchCount
	var hist []string
	var script []string
	nsteps := 10 + rng.Intn(50)
	sig := fmt.Sprintf("%s multi%d cycle%v n%d rows%d", layout, limitClass(limit), cycle, nitems, rowsClass(rows))
	if track {
		sig += " track"
	}
	if noInput {
		sig += " no-input"
	}
	fail := func(what string, st *tty.Status, extra map[string]any) {
		w := map[string]any{"fzf_args": fzfArgs, "items": nitems, "rows": rows, "history": hist, "model": map[string]any{"query": string(ed.in), "cursor": ed.cx, "yanked": string(ed.yanked), "position": cy, "selected": sel.order, "list_length": L}}
		if st != nil {
			w["state"] = map[string]any{"query": st.Query, "position": st.Position, "matchCount": st.MatchCount, "current": st.Current, "selected": st.Selected}
		}
		for k, v := range extra {
			w[k] = v
		}
		r.Violate(vk.Violation{Summary: fmt.Sprintf("C09: %s (after %q; %s)", what, last(hist), sig), Witness: w})
	}
	for k := 0; k < nsteps; k++ {
		var act, arg string
		// scripted: as many items selected as the next query matches, but other ones; then toggle-all
		if len(script) == 0 && limit == 1<<30 && nitems == 200 && !noInput && rng.Intn(30) == 0 {
			script = []string{"change-query:a1", "select-all:", "change-query:b2", "toggle-all:", "change-query:ab", "toggle-all:"}
		}
		scripted := false
		if len(script) > 0 {
			kv := strings.SplitN(script[0], ":", 2)
			act, arg, scripted = kv[0], kv[1], true
			script = script[1:]
		}
		switch c := rng.Intn(10); {
		case scripted:
		case c < 4 && !noInput:
			act = editActs[rng.Intn(len(editActs))]
		case c < 2 && noInput:
			// with the input section hidden the query cannot be edited: every editing action leaves it as it is
			act = editActs[rng.Intn(len(editActs))]
		case c < 8 && c >= 7 && rng.Intn(3) == 0:
			act = "reload"
		case c < 7:
			act = navActs[rng.Intn(len(navActs))]
		default:
			act = selActs[rng.Intn(len(selActs))]
		}
		post := act
		switch act {
		case "put":
			arg = putBits[rng.Intn(len(putBits))]
			post = "put(" + arg + ")"
		case "change-query":
			if !scripted {
				arg = putBits[rng.Intn(len(putBits))] + " " + putBits[rng.Intn(len(putBits))] + putBits[rng.Intn(len(putBits))]
			}
			post = "change-query(" + arg + ")"
		case "pos":
			arg = fmt.Sprint(rng.Intn(2*L+7) - L - 3)
			post = "pos(" + arg + ")"
		case "reload":
			// the same lines again: selections are dropped, everything else goes on as before
			post = "reload(cat '" + filepath.Join(s.Dir, "input") + "')"
		}
		// the current item before the action (needed for selection actions)
		curIdx := -1
		if st.Current != nil && L > 0 {
			curIdx = st.Current.Index
		}
		if (act == "toggle-up" || act == "toggle-down" || act == "toggle-in" || act == "toggle-out") && (limit == 0 || L == 0 || !sel.has(curIdx) && len(sel.order) >= limit) {
			continue // behaviour at the limit is not documented
		}
		prevQuery := string(ed.in)
		isEdit := false
		if noInput {
			for _, e := range editActs {
				if e == act {
					isEdit = true // a no-op here
				}
			}
		} else {
			isEdit = ed.apply(act, arg)
		}
		queryChanged := string(ed.in) != prevQuery
		if act == "reload" {
			sel.order = nil
			queryChanged = true // wait for the new list and re-anchor the cursor
		}
		code, err := s.Post(post)
		hist = append(hist, post)
		if err != nil || code != 200 {
			fail(fmt.Sprintf("POST %q answered %d %v", post, code, err), nil, nil)
			return
		}
		var okw bool
		if queryChanged {
			st, okw = s.WaitQuiescent(30 * time.Second)
		} else {
			okw = s.WaitConsumed(30 * time.Second)
			if okw {
				st, err = s.Get(1000)
				okw = err == nil
			}
		}
		if !okw || st == nil {
			if _, exited := s.ExitCode(); exited {
				fail("fzf exited: "+s.Stderr(), nil, nil)
			} else {
				r.Inconclusive(fmt.Sprintf("batch %q not consumed within the watchdog: %s", post, s.LastWait))
			}
			return
		}
		r.Eval(1)
		r.Count("steps_compared", 1)
		r.Distinct(act + " " + sig)
		if st.Query != string(ed.in) {
			fail(fmt.Sprintf("query is %q, a readline-style editor holds %q", st.Query, string(ed.in)), st, nil)
			return
		}
		// list cursor
		if queryChanged {
			// the cursor is clamped to the new list when it is drawn: give the renderer a bounded
			// number of polls to catch up before the invariant is judged
			for poll := 0; poll < 40 && st.MatchCount > 0 && (st.Position >= st.MatchCount || st.Current == nil); poll++ {
				time.Sleep(25 * time.Millisecond)
				if st2, err := s.Get(1000); err == nil {
					st = st2
				}
			}
			L = st.MatchCount
			cy = st.Position // re-anchor
			if track && act != "reload" && curIdx >= 0 && st.Current != nil && st.Current.Index != curIdx {
				// --track: the cursor follows the current item when the list is updated, if it is still listed
				for _, m := range st.Matches {
					if m.Index == curIdx {
						fail(fmt.Sprintf("--track: item %d was current and is still listed after the query change, but the cursor is on item %d", curIdx, st.Current.Index), st, nil)
						return
					}
				}
			}
		} else if !isEdit {
			cy = navigate(act, arg, cy, L, layout, cycle, maxItems)
			applySelection(act, sel, st, curIdx, L, limit, &cy, layout, cycle)
		}
		if st.MatchCount != L {
			fail(fmt.Sprintf("matchCount changed from %d to %d without a query change", L, st.MatchCount), st, nil)
			return
		}
		if L > 0 {
			if st.Position < 0 || st.Position >= L || st.Current == nil {
				fail(fmt.Sprintf("cursor position %d does not designate one of the %d results", st.Position, L), st, nil)
				return
			}
			if st.Position < len(st.Matches) && st.Matches[st.Position].Index != st.Current.Index {
				fail("current item is not the result at the cursor position", st, nil)
				return
			}
			if st.Position != cy {
				fail(fmt.Sprintf("cursor is at %d, the actions prescribe %d", st.Position, cy), st, nil)
				return
			}
		} else if st.Current != nil {
			fail("a current item is reported for an empty list", st, nil)
			return
		}
		// selection
		var gotSel []int
		for _, it := range st.Selected {
			gotSel = append(gotSel, it.Index)
		}
		if !eqInts(gotSel, sel.order) {
			fail(fmt.Sprintf("selection is %v, the multi-select rules give %v", gotSel, sel.order), st, nil)
			return
		}
		if limit > 0 && len(gotSel) > limit || limit == 0 && len(gotSel) > 0 {
			fail(fmt.Sprintf("%d items selected with --multi limit %d", len(gotSel), limit), st, nil)
			return
		}
	}
	// accept: the selection in selection order, else the current line
	var want []string
	if len(sel.order) > 0 {
		for _, i := range sel.order {
			want = append(want, lines[i])
		}
	} else if L > 0 && st.Current != nil {
		want = []string{st.Current.Text}
	}
	// sometimes the query is first changed to something that matches nothing: the selection survives,
	// there is no current line any more
	finalQuery := string(ed.in)
	if rng.Intn(4) == 0 && !noInput {
		finalQuery = "zzzqqq"
		s.Post("change-query(" + finalQuery + ")")
		hist = append(hist, "change-query("+finalQuery+")")
		st2, ok := s.WaitQuiescent(30 * time.Second)
		if !ok {
			r.Inconclusive("no quiescence after the final query change: " + s.LastWait)
			return
		}
		if st2.MatchCount != 0 {
			r.Inconclusive("the no-match query matched something")
			return
		}
		if len(sel.order) == 0 {
			want = nil
		}
	}
	// accept and its two variants: "same as accept except that" accept-non-empty does not exit when there
	// is nothing to print, and accept-or-print-query then prints the query
	ending := []string{"accept", "accept", "accept-non-empty", "accept-or-print-query"}[rng.Intn(4)]
	s.Post(ending)
	hist = append(hist, ending)
	if ending == "accept-non-empty" && len(want) == 0 && nitems > 0 {
		// must be ignored: the batch is consumed and fzf is still there
		if !s.WaitConsumed(20 * time.Second) {
			if _, exited := s.ExitCode(); exited {
				fail("accept-non-empty ended the session although there is neither a selection nor a current line", nil, map[string]any{"stdout": string(s.Stdout())})
			} else {
				r.Inconclusive("accept-non-empty was not consumed within the watchdog")
			}
			return
		}
		time.Sleep(50 * time.Millisecond)
		if _, exited := s.ExitCode(); exited {
			fail("accept-non-empty ended the session although there is neither a selection nor a current line", nil, map[string]any{"stdout": string(s.Stdout())})
			return
		}
		r.Count("accept_non_empty_ignored", 1)
		s.Post("accept")
		hist = append(hist, "accept")
	}
	rc, exited := s.WaitExit(20 * time.Second)
	if !exited {
		if ending != "accept" && len(want) > 0 {
			fail(fmt.Sprintf("%s did not end the session although there is something to accept: %q", ending, want), nil, nil)
			return
		}
		r.Inconclusive("accept did not end the session within the watchdog")
		return
	}
	r.Count("accepts_checked", 1)
	got := splitLines(s.Stdout())
	expRc := 0
	if len(want) == 0 {
		expRc = 1
		if ending == "accept-or-print-query" {
			want, expRc = []string{finalQuery}, 0
			if finalQuery == "" {
				want = []string{""}
			}
		}
	}
	if !eqs(got, want) || rc != expRc {
		fail(fmt.Sprintf("%s printed %q (exit %d), expected %q (exit %d)", ending, got, rc, want, expRc), nil, map[string]any{"stdout": string(s.Stdout())})
		return
	}
	if idx == 0 {
		r.Sample(map[string]any{"fzf_args": fzfArgs, "items": nitems, "rows": rows, "history": hist, "final_query": string(ed.in), "selected": sel.order, "printed": got})
	}
}

func limitClass(l int) int {
	if l > 3 {
		return 99
	}
	return l
}

func rowsClass(r int) int { return r / 10 * 10 }

func last(h []string) string {
	if len(h) == 0 {
		return ""
	}
	return h[len(h)-1]
}

func eqInts(a, b []int) bool {
	if len(a) != len(b) {
		return false
	}
	for i := range a {
		if a[i] != b[i] {
			return false
		}
	}
	return true
}

func clamp(v, lo, hi int) int {
	if v < lo {
		return lo
	}
	if v > hi {
		return hi
	}
	return v
}

// vmove: one step in screen direction o (+1 = towards the next item in the list order of the
// default layout, i.e. visually up), with --cycle wrapping only from the ends.
func vmove(cy, o, L int, layout string, cycle bool) int {
	if layout != "default" {
		o = -o
	}
	dest := cy + o
	if cycle {
		if dest > L-1 {
			if cy == L-1 {
				dest = 0
			}
		} else if dest < 0 {
			if cy == 0 {
				dest = L - 1
			}
		}
	}
	return clamp(dest, 0, L-1)
}

func navigate(act, arg string, cy, L int, layout string, cycle bool, maxItems int) int {
	if L == 0 {
		return cy
	}
	switch act {
	case "up":
		return vmove(cy, 1, L, layout, cycle)
	case "down":
		return vmove(cy, -1, L, layout, cycle)
	case "first":
		return 0
	case "last":
		return L - 1
	case "pos":
		var n int
		fmt.Sscan(arg, &n)
		if n > 0 {
			n--
		} else if n < 0 {
			n += L
		}
		return clamp(n, 0, L-1)
	case "page-up", "page-down", "half-page-up", "half-page-down":
		lines := maxItems - 1
		if strings.HasPrefix(act, "half") {
			lines = maxItems / 2
		}
		if lines < 1 {
			lines = 1
		}
		dir := -1
		if strings.HasSuffix(act, "up") {
			dir = 1
		}
		if layout != "default" {
			dir = -dir
		}
		return clamp(cy+dir*lines, 0, L-1)
	}
	return cy
}

func applySelection(act string, sel *selModel, st *tty.Status, curIdx, L, limit int, cy *int, layout string, cycle bool) {
	if limit == 0 {
		return
	}
	toggle := func() bool {
		if L == 0 || curIdx < 0 {
			return false
		}
		if sel.has(curIdx) {
			sel.remove(curIdx)
			return true
		}
		return sel.add(curIdx) && sel.has(curIdx)
	}
	switch act {
	case "toggle":
		toggle()
	case "toggle-down", "toggle-up", "toggle-in", "toggle-out":
		a := act
		if a == "toggle-in" {
			a = "toggle-down"
			if layout != "default" {
				a = "toggle-up"
			}
		} else if a == "toggle-out" {
			a = "toggle-up"
			if layout != "default" {
				a = "toggle-down"
			}
		}
		if toggle() {
			if a == "toggle-down" {
				*cy = vmove(*cy, -1, L, layout, cycle)
			} else {
				*cy = vmove(*cy, 1, L, layout, cycle)
			}
		}
	case "select":
		if curIdx >= 0 && !sel.has(curIdx) {
			sel.add(curIdx)
		}
	case "deselect":
		if curIdx >= 0 {
			sel.remove(curIdx)
		}
	case "select-all":
		for _, m := range st.Matches {
			if !sel.add(m.Index) {
				break
			}
		}
	case "deselect-all":
		for _, m := range st.Matches {
			sel.remove(m.Index)
		}
	case "toggle-all":
		prev := map[int]bool{}
		for _, m := range st.Matches {
			if sel.has(m.Index) {
				prev[m.Index] = true
				sel.remove(m.Index)
			}
		}
		for _, m := range st.Matches {
			if !prev[m.Index] {
				if !sel.add(m.Index) {
					break
				}
			}
		}
	case "clear-selection":
		sel.order = nil
	}
}

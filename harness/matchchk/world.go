// Package matchchk decides C13 (loading and searching run concurrently without
// interfering) with the real ChunkList / Matcher / Merger / caches under the
// race detector, and provides the in-process twin of C08 (the last published
// result answers the last request).
package matchchk

import (
	"encoding/binary"
	"fmt"
	"sort"
	"sync"
	"time"

	fzf "github.com/junegunn/fzf/src"
	"github.com/junegunn/fzf/src/algo"
	"github.com/junegunn/fzf/src/util"
)

var syll = []string{"ab", "bc", "ca", "abc", "x", "ba", "cab"}

// ItemText is the unique, index-derived content of item i.
func ItemText(i int) string {
	return fmt.Sprintf("%06d %s%s%s", i, syll[i%7], syll[(i/7)%7], syll[(i/49)%7])
}

var Queries = []string{"", "a", "ab", "abc", "b", "bc", "c", "ca", "cab", "'ab", "'abc", "a b", "ab c", "abc a", "!x a", "a | x", "0", "00", "1", "^0", "b$", "ba", "'ba c",
	// few matches per chunk (<= 20): these are the results the chunk cache keeps and hands to later, refined queries
	"'cabcab", "xx", "'xcab", "xx !1", "'cabcab !2", "xx 'ab", "xx | 'cabcab", "xxx"}

type World struct {
	Cache *fzf.ChunkCache
	List  *fzf.ChunkList
	Box   *util.EventBox
	M     *fzf.Matcher
	refPB func([]rune) *fzf.Pattern
	slab  *util.Slab
	Sort  bool
	Tac   bool
}

var initOnce sync.Once

func NewWorld(partitions int, sortOn, tac bool) *World {
	initOnce.Do(func() {
		algo.Init("default")
		fzf.VerifSetSortCriteria([]string{"score", "length"})
	})
	w := &World{Sort: sortOn, Tac: tac}
	w.Cache = fzf.NewChunkCache()
	w.List = fzf.NewChunkList(w.Cache, fzf.VerifItemBuilder())
	w.Box = util.NewEventBox()
	pb := fzf.VerifPatternBuilder(w.Cache, true, 0, true, fzf.CaseSmart, true, true, false, true)
	w.M = fzf.VerifNewMatcher(w.Cache, pb, sortOn, tac, w.Box, partitions)
	// the reference uses its own caches and is never handed to the matcher
	w.refPB = fzf.VerifPatternBuilder(fzf.NewChunkCache(), true, 0, true, fzf.CaseSmart, true, true, false, false)
	w.slab = util.MakeSlab(100*1024, 2048)
	return w
}

// Snapshot flattens the chunks of a snapshot to item pointers.
func Flatten(chunks []*fzf.Chunk) []*fzf.Item {
	var out []*fzf.Item
	for _, c := range chunks {
		out = append(out, fzf.VerifChunkItems(c)...)
	}
	return out
}

type ranked struct {
	key   uint64
	index int32
}

// Reference computes, single-threaded with its own pattern and slab, the
// sequence of item indices a sequential filter + sort of the snapshot yields.
func (w *World) Reference(items []*fzf.Item, query string) []int32 {
	pat := w.refPB([]rune(query))
	var rs []ranked
	for _, it := range items {
		m := fzf.VerifMatchItem(pat, it, false, w.slab)
		if !m.Matched {
			continue
		}
		var b [8]byte
		for k := 0; k < 4; k++ {
			binary.LittleEndian.PutUint16(b[2*k:], m.Points[k])
		}
		rs = append(rs, ranked{binary.LittleEndian.Uint64(b[:]), fzf.VerifItemIndex(it)})
	}
	if w.Sort && query != "" {
		sort.SliceStable(rs, func(i, j int) bool {
			if rs[i].key != rs[j].key {
				return rs[i].key < rs[j].key
			}
			return (rs[i].index <= rs[j].index) != w.Tac
		})
	} else if w.Tac {
		for i, j := 0, len(rs)-1; i < j; i, j = i+1, j-1 {
			rs[i], rs[j] = rs[j], rs[i]
		}
	}
	out := make([]int32, len(rs))
	for i, r := range rs {
		out[i] = r.index
	}
	return out
}

// ReadMerger reads a merger with the given access pattern and returns the index sequence.
func ReadMerger(mg *fzf.Merger, pattern int, rnd func(int) int) ([]int32, string) {
	n := mg.Length()
	out := make([]int32, n)
	for i := range out {
		out[i] = -1
	}
	get := func(i int) {
		it := fzf.VerifMergerItem(mg, i)
		idx := fzf.VerifItemIndex(it)
		if out[i] != -1 && out[i] != idx {
			out[i] = -2 // unstable read
			return
		}
		out[i] = idx
	}
	name := "sequential"
	switch pattern % 4 {
	case 1:
		name = "last-first"
		if n > 0 {
			get(n - 1)
		}
	case 2:
		name = "random-probes"
		for k := 0; k < 20 && n > 0; k++ {
			get(rnd(n))
		}
	case 3:
		name = "reverse"
		for i := n - 1; i >= 0; i-- {
			get(i)
		}
	}
	for i := 0; i < n; i++ {
		get(i)
	}
	return out, name
}

func eqIdx(a, b []int32) bool {
	if len(a) != len(b) {
		return false
	}
	for i := range a {
		if a[i] != b[i] {
			return false
		}
	}
	return true
}

func firstDiffIdx(a, b []int32) int {
	for i := 0; i < len(a) && i < len(b); i++ {
		if a[i] != b[i] {
			return i
		}
	}
	if len(a) != len(b) {
		if len(a) < len(b) {
			return len(a)
		}
		return len(b)
	}
	return -1
}

// waitFin waits for the next EvtSearchFin merger on the box (nil on timeout).
func waitFin(box *util.EventBox, d time.Duration) *fzf.Merger {
	res := make(chan *fzf.Merger, 1)
	go func() {
		for {
			var mg *fzf.Merger
			box.Wait(func(ev *util.Events) {
				if v, ok := (*ev)[fzf.EvtSearchFin]; ok {
					mg, _ = v.(*fzf.Merger)
				}
				ev.Clear()
			})
			if mg != nil {
				res <- mg
				return
			}
		}
	}()
	select {
	case mg := <-res:
		return mg
	case <-time.After(d):
		// unblock the waiter
		box.Set(fzf.EvtSearchProgress, float32(0))
		return nil
	}
}

package filterchk

import (
	"fmt"
	"math/rand"

	fzf "github.com/junegunn/fzf/src"
	"github.com/junegunn/fzf/src/algo"
	"github.com/junegunn/fzf/src/util"

	"verif/harness/refq"
	"verif/harness/vk"
)

// Query-sequence phase of C01: in an interactive session the same Matcher, pattern cache and chunk
// cache serve one query after the other, and a later query may be answered from (or narrowed down
// from) what an earlier one left in the caches. Filter mode never does that. Here the real Matcher
// scans a real ChunkList of full chunks for a *sequence* of related queries (A, "A B", "B A", A, B,
// "A B" again ...) built through one pattern builder; after every scan the matched lines must be
// the lines the reference evaluator accepts for that query alone.
//
// One scheme per worker process (algo.Init is process-global).

func init() { vk.RegisterWorker("c01cache", workerCacheSeq) }

func workerCacheSeq(r *vk.Run, w, n int, args []string) {
	rng := rand.New(rand.NewSource(r.Seed*60013 + int64(w)*19 + 11))
	g := NewGen(rng, w)
	scheme := g.Scheme
	if scheme == "" {
		scheme = "default"
	}
	algo.Init(scheme)
	fzf.VerifSetSortCriteria([]string{"score", "length"})
	worlds := 240
	if !r.Quick() {
		worlds = 3000
	}
	per := worlds/n + 1
	for i := 0; i < per; i++ {
		if !cacheSeqCase(r, rng, g) {
			return
		}
	}
}

func cacheSeqCase(r *vk.Run, rng *rand.Rand, g *Gen) bool {
	o := g.Options()
	o.Ref.Extended = true // the sequence is built from extended-mode terms
	nl := []int{100, 100, 200, 230, 300, 1000}[rng.Intn(6)]
	lines := g.Lines(nl, 10)
	// a share of the lines are near-copies of each other, so that selective terms still match a few lines
	for k := 0; k < nl/8; k++ {
		lines[rng.Intn(nl)] = lines[rng.Intn(nl)] + string(bodyAlpha[rng.Intn(len(bodyAlpha))])
	}
	cache := fzf.NewChunkCache()
	list := fzf.NewChunkList(cache, fzf.VerifItemBuilder())
	for _, l := range lines {
		list.Push([]byte(l))
	}
	cm := fzf.CaseSmart
	switch o.Ref.Case {
	case "ignore":
		cm = fzf.CaseIgnore
	case "respect":
		cm = fzf.CaseRespect
	}
	av := 0
	if o.AlgoV1 {
		av = 1
	}
	pb := fzf.VerifPatternBuilder(cache, !o.Ref.Exact, av, true, cm, !o.Ref.Literal, true, false, true)
	parts := []int{1, 2, 8}[rng.Intn(3)]
	m := fzf.VerifNewMatcher(cache, pb, !o.NoSort, o.Tac, util.NewEventBox(), parts)
	chunks, _, _ := list.Snapshot(0)
	a, asig := g.QueryFor(lines)
	b, bsig := g.QueryFor(lines)
	t, _ := g.Term()
	seq := []string{a, a + " " + b, b + " " + a, a, b, a + " " + b, a + " " + t, t + " " + a, a + " " + b + " " + t, b}
	rng.Shuffle(len(seq), func(i, j int) { seq[i], seq[j] = seq[j], seq[i] })
	seq = append([]string{a}, seq[:3+rng.Intn(len(seq)-3)]...)
	var asked []string
	for _, q := range seq {
		asked = append(asked, q)
		vk.SetCase(map[string]any{"phase": "query sequence on one matcher", "queries": asked, "options": o.Sig})
		mg, _ := fzf.VerifMatcherScan(m, chunks, pb([]rune(q)))
		if mg == nil {
			r.Inconclusive("scan returned no merger")
			return true
		}
		var got []string
		for k := 0; k < mg.Length(); k++ {
			got = append(got, lines[fzf.VerifItemIndex(fzf.VerifMergerItem(mg, k))])
		}
		rq := refq.Parse(q, o.Ref)
		var want []string
		for _, l := range lines {
			if rq.Matches(l, nil) {
				want = append(want, l)
			}
		}
		r.Eval(1)
		r.Count("sequence_scans", 1)
		r.Count("lines_evaluated", int64(len(lines)))
		r.Count("lines_matched", int64(len(want)))
		if len(want) > 0 && len(want)*5 <= 100 {
			r.Count("sequence_scans_cacheable_size", 1)
		}
		r.Distinct(fmt.Sprintf("seq %s ; %s / exact=%v case=%s / step%d", asig, bsig, o.Ref.Exact, o.Ref.Case, len(asked)))
		missing, extra := diffMultiset(got, want)
		if len(missing) > 0 || len(extra) > 0 {
			r.Violate(vk.Violation{Summary: fmt.Sprintf("C01: after the queries %q on one matcher (%s, %d lines, %d partitions) the result of the last one differs from the reference: missing=%q extra=%q", asked, o.Sig, len(lines), parts, missing, extra),
				Witness: map[string]any{"queries": asked, "options": o.Sig, "lines": lines, "missing": missing, "extra": extra, "reference_parse": fmt.Sprintf("%+v", rq)}})
			return false
		}
	}
	return true
}

package histchk

import (
	"fmt"
	"math/rand"
	"os"
	"path/filepath"
	"strings"
	"time"

	"verif/harness/tty"
	"verif/harness/vk"
)

func init() { vk.RegisterWorker("c18tty", workerTty) }

// workerTty: real sessions with --history: navigation through POSTed prev-history / next-history with
// typing in between, ended by accept (match), accept with no match (exit 1, still submitted), or abort.
func workerTty(r *vk.Run, w, n int, args []string) {
	rng := rand.New(rand.NewSource(r.Seed*15887 + int64(w)*173 + 3))
	chains := 6
	if !r.Quick() {
		chains = 200
	}
	per := chains/n + 1
	dir := filepath.Join(vk.Scratch(), fmt.Sprintf("histtty-%d-%d", os.Getpid(), w))
	os.MkdirAll(dir, 0o755)
	defer os.RemoveAll(dir)
	for c := 0; c < per; c++ {
		path := filepath.Join(dir, fmt.Sprintf("h%d", c))
		max := 1 + rng.Intn(4)
		var file []byte
		exists := rng.Intn(3) != 0
		if exists {
			k := rng.Intn(5)
			var ls []string
			for j := 0; j < k; j++ {
				ls = append(ls, words[rng.Intn(len(words))])
			}
			file = []byte(strings.Join(ls, "\n"))
			if k > 0 && rng.Intn(2) == 0 {
				file = append(file, '\n')
			}
			os.WriteFile(path, file, 0o600)
		}
		init := string(file)
		var log []string
		for sess := 0; sess < 1+rng.Intn(3); sess++ {
			// the two options in either order, the size also from $FZF_DEFAULT_OPTS (an earlier source)
			hargs := []string{"--history", path, fmt.Sprintf("--history-size=%d", max), "--no-mouse"}
			var henv []string
			switch rng.Intn(4) {
			case 0:
				hargs = []string{fmt.Sprintf("--history-size=%d", max), "--history", path, "--no-mouse"}
			case 1:
				hargs = []string{"--history-size", fmt.Sprint(max), "--no-history", "--history=" + path, "--no-mouse"}
			case 2:
				hargs = []string{"--history", path, "--no-mouse"}
				henv = []string{fmt.Sprintf("FZF_DEFAULT_OPTS=--history-size %d", max)}
			}
			s, err := tty.Start(tty.StartOpts{Args: hargs, Env: henv, InputCmd: "printf 'foo\\nbar\\nfoo bar\\n'", Cols: 60, Rows: 12})
			if err != nil {
				r.Inconclusive("start: " + err.Error())
				if s != nil {
					s.Close()
				}
				return
			}
			if !exists {
				exists, file = true, []byte{}
			}
			m := LoadModel(file, true, max)
			ms := m.NewSession()
			input := ""
			s.WaitQuiescent(20 * time.Second)
			bad := false
			for k := 0; k < rng.Intn(8) && !bad; k++ {
				var post string
				switch rng.Intn(4) {
				case 0:
					ch := []string{"a", "o", "z"}[rng.Intn(3)]
					post, input = "put("+ch+")", input+ch
				case 1, 2:
					post, input = "prev-history", ms.Prev(input)
				default:
					post, input = "next-history", ms.Next(input)
				}
				s.Post(post)
				log = append(log, post)
				st, ok := s.WaitQuiescent(20 * time.Second)
				if !ok {
					r.Inconclusive("history session: no quiescence: " + s.LastWait)
					s.Close()
					return
				}
				r.Count("tty_nav_steps", 1)
				if st.Query != input {
					r.Violate(vk.Violation{Summary: fmt.Sprintf("C18: after %q the prompt holds %q, the model says %q (limit %d, initial file %q)", post, st.Query, input, max, init),
						Witness: map[string]any{"initial_file": init, "limit": max, "log": log}})
					bad = true
				}
			}
			if bad {
				s.Close()
				return
			}
			end := []string{"accept", "accept", "abort"}[rng.Intn(3)]
			s.Post(end)
			log = append(log, fmt.Sprintf("%s with query %q", end, input))
			rc, exited := s.WaitExit(20 * time.Second)
			s.Close()
			if !exited {
				r.Inconclusive("history session did not end")
				return
			}
			if end == "accept" {
				// exit 0 (match) or 1 (no match): the query was submitted either way
				if nf := m.Submit(input); nf != nil {
					file = nf
				}
				r.Distinct(fmt.Sprintf("tty accept rc%d max%d", rc, max))
			} else {
				r.Distinct(fmt.Sprintf("tty abort max%d", max))
			}
			r.Count("tty_sessions", 1)
			r.Eval(1)
			disk, _ := os.ReadFile(path)
			if string(disk) != string(file) {
				r.Violate(vk.Violation{Summary: fmt.Sprintf("C18: after the session (%s, exit %d) the history file is %q, the model says %q (limit %d, initial file %q)", end, rc, disk, file, max, init),
					Witness: map[string]any{"initial_file": init, "limit": max, "log": log, "file": string(disk), "expected": string(file)}})
				return
			}
		}
	}
}

#!/bin/bash
# isolated_sweep.sh <dir> <tier> <seeds...> [-- <properties...>]: run the checks of all (or the named) properties on
# private copies (git worktrees of the HEADs) of /verif and /repo, one summary line per run in <dir>/sweep.out,
# full output in <dir>/logs/. Evidence goes to <dir>/evidence (never to /verif/evidence).
D="${1:?dir}"; tier="${2:?tier}"; shift 2
seeds=(); props=()
while [ $# -gt 0 ]; do if [ "$1" = "--" ]; then shift; props=("$@"); break; fi; seeds+=("$1"); shift; done
[ ${#seeds[@]} -gt 0 ] || seeds=(1)
[ ${#props[@]} -gt 0 ] || props=(C01 C02 C03 C04 C05 C06 C07 C08 C09 C10 C11 C12 C13 C14 C15 C16 C17 C18 C19 C20)
git -C /repo worktree remove --force "$D/repo" 2>/dev/null; git -C /verif worktree remove --force "$D/verif" 2>/dev/null; rm -rf "$D"; mkdir -p "$D/logs" "$D/evidence"
git -C /repo worktree add --detach "$D/repo" HEAD >/dev/null 2>&1 || exit 2
git -C /verif worktree add --detach "$D/verif" HEAD >/dev/null 2>&1 || exit 2
sed -i "s|=> /repo|=> $D/repo|" "$D/verif/harness/go.mod"
cp /repo/go.sum "$D/verif/harness/go.sum" 2>/dev/null
for sd in "${seeds[@]}"; do
  for p in "${props[@]}"; do
    ( cd "$D/verif" && VERIF_SEED=$sd VERIF_REPO="$D/repo" VERIF_EVIDENCE_DIR="$D/evidence" ./check "$p" "$tier" ) > "$D/logs/$p-$tier-$sd.log" 2>&1
    echo "rc=$? seed=$sd $(tail -1 "$D/logs/$p-$tier-$sd.log" | cut -c1-220)" >> "$D/sweep.out"
  done
done
echo "sweep finished" >> "$D/sweep.out"

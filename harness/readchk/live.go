package readchk

import (
	"fmt"
	"math/rand"
	"os"
	"path/filepath"
	"sort"
	"strings"
	"syscall"
	"time"

	"verif/harness/tty"
	"verif/harness/vk"
)

// Phase (c) of C06: reader and snapshot interleavings of an interactive fzf whose input stream stays
// open. The harness holds the write end of a FIFO and delivers the records in bursts; after every
// burst it waits (hook trace: a coordinator snapshot containing every delivered record, the search
// issued for it answered and displayed) and compares GET / with the model: the items are the records
// after the header lines, numbered from the start of the stream, and with --tail=N exactly the last N.

func init() { vk.RegisterWorker("c06live", workerLive) }

func workerLive(r *vk.Run, w, n int, args []string) {
	rng := rand.New(rand.NewSource(r.Seed*7919 + int64(w)*131 + 3))
	sessions := 48
	if !r.Quick() {
		sessions = 2400
	}
	per := (sessions + n - 1) / n
	for i := 0; i < per; i++ {
		liveSession(r, rng, w*1000+i)
	}
}

type liveRec struct {
	text string
}

func liveSession(r *vk.Run, rng *rand.Rand, idx int) {
	tail := []int{0, 0, 7, 30, 100, 130, 250}[rng.Intn(7)]
	headerN := []int{0, 0, 1, 3}[rng.Intn(4)]
	withNth := []string{"", "", "1..", ".."}[rng.Intn(4)]
	fzfArgs := []string{"--multi", "--exact", "--no-sort"}
	if tail > 0 {
		fzfArgs = append(fzfArgs, fmt.Sprintf("--tail=%d", tail))
	}
	if headerN > 0 {
		fzfArgs = append(fzfArgs, fmt.Sprintf("--header-lines=%d", headerN))
	}
	if withNth != "" {
		fzfArgs = append(fzfArgs, "--with-nth", withNth)
	}
	fifo := filepath.Join(vk.Scratch(), fmt.Sprintf("fifo-%d-%d", os.Getpid(), idx))
	if err := syscall.Mkfifo(fifo, 0o600); err != nil {
		r.Inconclusive("mkfifo: " + err.Error())
		return
	}
	defer os.Remove(fifo)
	wr, err := os.OpenFile(fifo, os.O_RDWR, 0)
	if err != nil {
		r.Inconclusive("open fifo: " + err.Error())
		return
	}
	closed := false
	defer func() {
		if !closed {
			wr.Close()
		}
	}()
	s, err := tty.Start(tty.StartOpts{Args: fzfArgs, InputCmd: "cat '" + fifo + "'", Cols: 80, Rows: 24, Seed: r.Seed})
	if err != nil {
		r.Inconclusive("start: " + err.Error())
		if s != nil {
			s.Close()
		}
		return
	}
	defer s.Close()

	var recs []string // every record delivered so far (header lines included)
	var hist []string
	query := ""
	seq := 0
	mkRec := func() string {
		seq++
		l := fmt.Sprintf("r%05d k%d", seq, rng.Intn(10))
		switch rng.Intn(12) {
		case 0:
			l += "  "
		case 1:
			l += "\t"
		case 2:
			l += " \t "
		}
		return l
	}
	// model of what GET / must show
	expect := func() (all []tty.Item, matched []tty.Item) {
		for i := headerN; i < len(recs); i++ {
			all = append(all, tty.Item{Index: i - headerN, Text: recs[i]})
		}
		if tail > 0 && len(all) > tail {
			all = all[len(all)-tail:]
		}
		for _, it := range all {
			// (GET / reports the original record also under --with-nth; the queries hold no blanks, so
			// trimming of the transformed text does not change what matches)
			if query == "" || strings.Contains(it.Text, query) {
				matched = append(matched, it)
			}
		}
		return
	}
	compare := func(st *tty.Status, when string) bool {
		all, matched := expect()
		r.Eval(1)
		r.Count("live_comparisons", 1)
		r.Count("live_items_compared", int64(len(matched)))
		why := ""
		switch {
		case st.Query != query:
			why = fmt.Sprintf("query is %q, expected %q", st.Query, query)
		case st.TotalCount != len(all):
			why = fmt.Sprintf("totalCount is %d, %d records are loaded", st.TotalCount, len(all))
		case st.MatchCount != len(matched) || len(st.Matches) != len(matched):
			why = fmt.Sprintf("matchCount is %d (%d listed), expected %d", st.MatchCount, len(st.Matches), len(matched))
		default:
			for i := range matched {
				if st.Matches[i] != matched[i] {
					why = fmt.Sprintf("position %d holds item %d %q, expected item %d %q", i, st.Matches[i].Index, st.Matches[i].Text, matched[i].Index, matched[i].Text)
					break
				}
			}
		}
		if why == "" {
			return true
		}
		first, last := -1, -1
		if len(st.Matches) > 0 {
			first, last = st.Matches[0].Index, st.Matches[len(st.Matches)-1].Index
		}
		r.Violate(vk.Violation{Summary: fmt.Sprintf("C06: %s: %s (records delivered %d, options %v, listed items %d..%d, last steps %v)", when, why, len(recs), fzfArgs, first, last, tailStr(hist, 5)),
			Witness: map[string]any{"fzf_args": fzfArgs, "history": hist, "delivered": len(recs), "query": query, "state_total": st.TotalCount, "state_match": st.MatchCount, "first_listed": first, "last_listed": last}})
		return false
	}

	bursts := 4 + rng.Intn(8)
	sizes := []int{1, 2, 3, 37, 99, 100, 101, 150, 200, 300, 500, 1000}
	kinds := map[string]bool{}
	for b := 0; b < bursts; b++ {
		n := sizes[rng.Intn(len(sizes))]
		if b == 0 && n <= headerN {
			n = headerN + 1 + rng.Intn(5)
		}
		var sb strings.Builder
		for i := 0; i < n; i++ {
			l := mkRec()
			recs = append(recs, l)
			sb.WriteString(l)
			sb.WriteByte('\n')
		}
		// delivered in one or several writes
		data := []byte(sb.String())
		if rng.Intn(3) == 0 && len(data) > 10 {
			cut := 1 + rng.Intn(len(data)-1)
			wr.Write(data[:cut])
			time.Sleep(time.Duration(rng.Intn(30)) * time.Millisecond)
			wr.Write(data[cut:])
			kinds["split-write"] = true
		} else {
			wr.Write(data)
		}
		hist = append(hist, fmt.Sprintf("deliver %d records (total %d)", n, len(recs)))
		if n%100 == 0 {
			kinds["burst%100=0"] = true
		}
		if rng.Intn(4) == 0 {
			// a query change while the stream is open
			q := []string{"", "k3", "r0001", "7", "k"}[rng.Intn(5)]
			if code, err := s.Post("change-query(" + q + ")"); err != nil || code != 200 {
				r.Inconclusive(fmt.Sprintf("POST change-query: %v %d", err, code))
				return
			}
			query = q
			hist = append(hist, "change-query("+q+")")
			kinds["query"] = true
		}
		st, ok := s.WaitStream(len(recs)-headerN, 30*time.Second)
		if !ok {
			if _, exited := s.ExitCode(); exited {
				r.Violate(vk.Violation{Summary: "C06: fzf exited while its input was open: " + s.Stderr(), Witness: map[string]any{"fzf_args": fzfArgs, "history": hist}})
			} else {
				r.Inconclusive("stream not settled within the watchdog: " + s.LastWait)
			}
			return
		}
		if !compare(st, "while the stream is open") {
			return
		}
	}
	wr.Close()
	closed = true
	hist = append(hist, "end of stream")
	st, ok := s.WaitQuiescent(30 * time.Second)
	if !ok {
		r.Inconclusive("no quiescence after the end of the stream: " + s.LastWait)
		return
	}
	if !compare(st, "after the end of the stream") {
		return
	}
	// a reload starts a new stream: header lines are diverted again, numbering restarts, --tail applies
	if rng.Intn(2) == 0 {
		k := []int{0, 1, 2, 5, 150, 320}[rng.Intn(6)]
		if rng.Intn(3) == 0 && len(recs) <= 3000 {
			k = len(recs) // as many records as before, different content
		}
		recs = nil
		var sb strings.Builder
		for i := 0; i < k; i++ {
			l := mkRec()
			recs = append(recs, l)
			sb.WriteString(l)
			sb.WriteByte('\n')
		}
		alt := fifo + ".alt"
		content := sb.String()
		if k > 0 && rng.Intn(2) == 0 {
			content = strings.TrimSuffix(content, "\n") // a final record without terminator
			kinds["unterminated"] = true
		}
		os.WriteFile(alt, []byte(content), 0o644)
		defer os.Remove(alt)
		act := []string{"reload", "reload-sync"}[rng.Intn(2)]
		// the producer's exit status is not part of the stream: whatever it wrote are the records
		status := []string{"", "; exit 0", "; exit 1", "; exit 3"}[rng.Intn(4)]
		if status != "" {
			kinds["exit-status"] = true
		}
		if code, err := s.Post(act + "(cat '" + alt + "'" + status + ")"); err != nil || code != 200 {
			r.Inconclusive(fmt.Sprintf("POST %s: %v %d", act, err, code))
			return
		}
		hist = append(hist, fmt.Sprintf("%s with %d records", act, k))
		kinds[act] = true
		st, ok := s.WaitQuiescent(30 * time.Second)
		if !ok {
			r.Inconclusive("no quiescence after the reload: " + s.LastWait)
			return
		}
		if !compare(st, "after "+act) {
			return
		}
	}
	// what comes out is the original record, byte for byte
	if query != "" {
		s.Post("clear-query")
		query = ""
		if _, ok := s.WaitQuiescent(30 * time.Second); !ok {
			r.Inconclusive("no quiescence after clear-query: " + s.LastWait)
			return
		}
	}
	s.PostNoCount("select-all+accept")
	if _, ok := s.WaitExit(20 * time.Second); !ok {
		r.Inconclusive("fzf did not exit after accept")
		return
	}
	all, _ := expect()
	var want strings.Builder
	for _, it := range all {
		want.WriteString(it.Text)
		want.WriteByte('\n')
	}
	r.Eval(1)
	r.Count("live_outputs_compared", 1)
	if got := string(s.Stdout()); got != want.String() {
		gl, wl := strings.Split(got, "\n"), strings.Split(want.String(), "\n")
		at := 0
		for at < len(gl) && at < len(wl) && gl[at] == wl[at] {
			at++
		}
		g, w := "<none>", "<none>"
		if at < len(gl) {
			g = gl[at]
		}
		if at < len(wl) {
			w = wl[at]
		}
		r.Violate(vk.Violation{Summary: fmt.Sprintf("C06: select-all+accept printed %d lines, expected %d; first difference at line %d: %q vs record %q (options %v)", len(gl)-1, len(wl)-1, at, g, w, fzfArgs),
			Witness: map[string]any{"fzf_args": fzfArgs, "history": hist}})
		return
	}
	r.Count("live_sessions", 1)
	var ks []string
	for k := range kinds {
		ks = append(ks, k)
	}
	sort.Strings(ks)
	r.Distinct(fmt.Sprintf("live tail%d hdr%d nth%q %v", tail, headerN, withNth, ks))
}

func tailStr(a []string, n int) []string {
	if len(a) > n {
		return a[len(a)-n:]
	}
	return a
}

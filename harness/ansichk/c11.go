// Package ansichk decides C11: --ansi removes exactly the documented control
// sequences and attaches to every character the colour a terminal would show.
package ansichk

import (
	"fmt"
	"math/rand"
	"regexp"
	"strings"
	"time"
	"unicode/utf8"

	fzf "github.com/junegunn/fzf/src"
	"github.com/junegunn/fzf/src/tui"

	"verif/harness/vk"
)

func init() { vk.RegisterWorker("c11", worker) }

// The documented expression (ansi.go, comment of nextAnsiEscapeSequence), read as a regular expression:
//
//	ESC [\[()] [0-9;:?]* [a-zA-Z@]  |  ESC ] [0-9]+ [;:] [[:print:]]+ (ESC \ | BEL)  |  ESC .  |  [SO SI]  |  . BS
var documented = regexp.MustCompile("(?:\x1b[\\[()][0-9;:?]*[a-zA-Z@]|\x1b\\][0-9]+[;:][[:print:]]+(?:\x1b\\\\|\x07)|\x1b.|[\x0e\x0f]|.\x08)")

func Main(prop, tier string) int {
	r := vk.New("C11", tier)
	r.Rule = "(1) arbitrary byte strings from a piece alphabet (ESC, CSI/OSC introducers, digits, separators, finals, BEL, BS, SO/SI, newline, multi-byte, invalid UTF-8): stripped text must equal ReplaceAll with the documented expression; control-free text untouched; (2) spans inside the text, ordered, non-overlapping; (3) grammar-generated streams of text and well-formed SGR / OSC-8 / other CSI sequences, with a carried-over state: per-character fg/bg/attributes/hyperlink compared with an independent SGR interpreter. distinct = (shape of the string as a sequence of piece classes | set of SGR codes used, carried state present, ends-with-sequence) signatures"
	r.Assumptions = []string{"SGR parameters are separated by ';' or by ':' throughout one sequence (mixed forms not generated)", "unknown SGR codes are ignored by terminals", "line-background (lbg) state is not part of the property"}
	r.Fanout("c11", vk.NumWorkers(), 30*time.Minute)
	r.Floor("strip_checked", 1000)
	r.Floor("colour_chars_checked", 1000)
	return r.Finish()
}

var pieces = []string{"\x1b", "\x1b", "[", "]", "(", ")", "\\", "0", "1", "8", "38", ";", ";", ":", "?", "m", "K", "H", "@", "a", "b", "x", "Z", " ", "\x07", "\x08", "\x0e", "\x0f", "\n", "é", "日", "\xff", "\xc3", "~", "\x7f", "\x01", "\x1b[", "\x1b]8;;", "\x1b\\", "\x1b[31m", "\x1b]8;;http://x\x1b\\"}

func pieceClass(p string) byte {
	switch {
	case p == "\x1b":
		return 'E'
	case strings.HasPrefix(p, "\x1b"):
		return 'S'
	case p == "\x08":
		return 'B'
	case p == "\x0e" || p == "\x0f":
		return 'O'
	case p == "\x07":
		return 'G'
	case p == "\n":
		return 'N'
	case len(p) == 1 && strings.Contains("[]()\\", p):
		return 'I'
	case len(p) >= 1 && p[0] >= '0' && p[0] <= '9':
		return 'D'
	case p == ";" || p == ":" || p == "?":
		return 'P'
	case p[0] >= 0x80:
		return 'U'
	}
	return 'T'
}

type chk struct {
	r   *vk.Run
	rng *rand.Rand
}

func (c *chk) violate(key, what string, w map[string]any) {
	c.r.Violate(vk.Violation{Key: key, Summary: "C11: " + what + fmt.Sprintf(" input=%q", w["input"]), Witness: w})
}

func worker(r *vk.Run, w, n int, args []string) {
	c := &chk{r: r, rng: rand.New(rand.NewSource(r.Seed*9176 + int64(w)))}
	total := 3000000
	if !r.Quick() {
		total = 150000000
	}
	per := total / n
	for i := 0; i < per; i++ {
		if i%2 == 0 {
			c.bytesCase()
		} else {
			c.grammarCase()
		}
		r.Eval(1)
	}
}

func (c *chk) randState() *fzf.VerifAnsiState {
	if c.rng.Intn(3) != 0 {
		return nil
	}
	s := &fzf.VerifAnsiState{Fg: -1, Bg: -1, Lbg: -1}
	switch c.rng.Intn(4) {
	case 0:
		s.Fg = int32(c.rng.Intn(8))
	case 1:
		s.Bg = int32(c.rng.Intn(256))
	case 2:
		s.Attr = int32(tui.Bold)
	default:
		s.Fg = int32(1<<24 | c.rng.Intn(1<<24))
		s.Attr = int32(tui.Underline)
	}
	return s
}

// ---- (1) + (2): arbitrary byte strings

func (c *chk) bytesCase() {
	n := 1 + c.rng.Intn(10)
	if c.rng.Intn(40) == 0 {
		n = 30 + c.rng.Intn(300)
	}
	var sb strings.Builder
	sig := make([]byte, 0, n)
	for i := 0; i < n; i++ {
		p := pieces[c.rng.Intn(len(pieces))]
		sb.WriteString(p)
		sig = append(sig, pieceClass(p))
	}
	in := sb.String()
	st := c.randState()
	vk.SetCase(map[string]any{"input": in})
	trimmed, spans, hasSpans, _ := fzf.VerifExtractColor(in, st)
	c.r.Count("strip_checked", 1)
	c.r.Distinct("b:" + string(sig))
	want := documented.ReplaceAllString(in, "")
	w := map[string]any{"input": in, "input_quoted": fmt.Sprintf("%+q", in), "stripped": trimmed, "expected": want, "carried_state": st}
	if trimmed != want {
		key := ""
		if isF8(in, trimmed) {
			key = "F8-esc-backslash-swallows"
		} else if strings.Contains(in, "\x1b]8;;\x1b") && withBareClose.ReplaceAllString(in, "") == trimmed {
			key = "F20-osc8-close-with-bare-esc"
		}
		c.violate(key, fmt.Sprintf("stripped text %q differs from the documented stripping %q", trimmed, want), w)
		return
	}
	if !strings.ContainsAny(in, "\x1b\x0e\x0f\x08") && trimmed != in {
		c.violate("", "text without control characters was altered", w)
	}
	c.wellFormed(trimmed, spans, hasSpans, w)
	if c.rng.Intn(5000) == 0 {
		c.r.Sample(w)
	}
}

// withBareClose: the documented expression plus fzf's extra reading of ESC ] 8 ; ; ESC
// (hyperlink close whose terminator lacks the backslash) as one sequence.
var withBareClose = regexp.MustCompile("(?:\x1b[\\[()][0-9;:?]*[a-zA-Z@]|\x1b\\][0-9]+[;:][[:print:]]+(?:\x1b\\\\|\x07)|\x1b\\]8;;\x1b|\x1b.|[\x0e\x0f]|.\x08)")

// isF8: ESC \ followed by [0-9;:?]*[a-zA-Z@] was treated as a control sequence.
var f8re = regexp.MustCompile("\x1b\\\\[0-9;:?]*[a-zA-Z@]")

func isF8(in, got string) bool {
	if !f8re.MatchString(in) {
		return false
	}
	// the implementation's reading: ESC \ may start a control sequence too
	alt := regexp.MustCompile("(?:\x1b[\\\\\\[()][0-9;:?]*[a-zA-Z@]|\x1b\\][0-9]+[;:][[:print:]]+(?:\x1b\\\\|\x07)|\x1b.|[\x0e\x0f]|.\x08)")
	return alt.ReplaceAllString(in, "") == got
}

func (c *chk) wellFormed(trimmed string, spans []fzf.VerifAnsiSpan, hasSpans bool, w map[string]any) bool {
	n := int32(utf8.RuneCountInString(trimmed))
	// RuneCountInString counts each invalid byte as one rune, as the item text does
	prevEnd := int32(0)
	for i, s := range spans {
		if s.Begin < 0 || s.End < s.Begin || s.End > n {
			w["spans"] = spans
			w["span_index"] = i
			c.violate("", fmt.Sprintf("colour span [%d,%d) outside the text of %d characters", s.Begin, s.End, n), w)
			return false
		}
		if s.Begin < prevEnd {
			w["spans"] = spans
			w["span_index"] = i
			c.violate("", "colour spans overlap or are out of order", w)
			return false
		}
		prevEnd = s.End
	}
	c.r.Count("spans_checked", int64(len(spans)))
	return true
}

// ---- (3): grammar streams vs an SGR interpreter

type tstate struct {
	fg, bg int32
	attr   int32
	url    string
	hasURL bool
}

func defState() tstate { return tstate{fg: -1, bg: -1} }

type sgrGen struct {
	params []int
	sep    string
}

// genSGR returns the sequence, its parameters as a terminal reads them (an empty
// parameter is 0) and as read when empty parameters are skipped (F19).
func (c *chk) genSGR() (string, []int, []int) {
	n := c.rng.Intn(4)
	var ps []int
	var alt []int
	var parts []string
	sep := ";"
	for i := 0; i < n; i++ {
		switch c.rng.Intn(14) {
		case 0:
			ps = append(ps, 0)
			if c.rng.Intn(2) == 0 {
				parts = append(parts, "")
			} else {
				parts = append(parts, "0")
				alt = append(alt, 0)
			}
			continue
		case 1:
			ps = append(ps, []int{1, 2, 3, 4, 5, 7, 9}[c.rng.Intn(7)])
		case 2:
			ps = append(ps, []int{22, 23, 24, 25, 27, 29}[c.rng.Intn(6)])
		case 3:
			ps = append(ps, 30+c.rng.Intn(8))
		case 4:
			ps = append(ps, 40+c.rng.Intn(8))
		case 5:
			ps = append(ps, 90+c.rng.Intn(8))
		case 6:
			ps = append(ps, 100+c.rng.Intn(8))
		case 7:
			ps = append(ps, 39)
		case 8:
			ps = append(ps, 49)
		case 9:
			ps = append(ps, 38, 5, c.rng.Intn(256))
		case 10:
			ps = append(ps, 48, 5, c.rng.Intn(256))
		case 11:
			ps = append(ps, 38, 2, c.rng.Intn(256), c.rng.Intn(256), c.rng.Intn(256))
		case 12:
			ps = append(ps, 48, 2, c.rng.Intn(256), c.rng.Intn(256), c.rng.Intn(256))
		default:
			ps = append(ps, []int{6, 8, 10, 21, 26, 50, 53}[c.rng.Intn(7)]) // codes fzf does not render; terminals ignore or render otherwise
		}
		for len(parts) < len(ps) {
			alt = append(alt, ps[len(parts)])
			parts = append(parts, fmt.Sprint(ps[len(parts)]))
		}
	}
	// empty parameter strings are only produced for the single-zero case above
	if len(ps) > 0 && c.rng.Intn(8) == 0 {
		colonOK := true
		for _, p := range parts {
			if p == "" {
				colonOK = false
			}
		}
		if colonOK {
			sep = ":"
		}
	}
	return "\x1b[" + strings.Join(parts, sep) + "m", ps, alt
}

func applySGR(s *tstate, ps []int) {
	if len(ps) == 0 {
		s.fg, s.bg, s.attr = -1, -1, 0
		return
	}
	for i := 0; i < len(ps); i++ {
		p := ps[i]
		switch {
		case p == 0:
			s.fg, s.bg, s.attr = -1, -1, 0
		case p == 1:
			s.attr |= int32(tui.Bold)
		case p == 2:
			s.attr |= int32(tui.Dim)
		case p == 3:
			s.attr |= int32(tui.Italic)
		case p == 4:
			s.attr |= int32(tui.Underline)
		case p == 5:
			s.attr |= int32(tui.Blink)
		case p == 7:
			s.attr |= int32(tui.Reverse)
		case p == 9:
			s.attr |= int32(tui.StrikeThrough)
		case p == 22:
			s.attr &^= int32(tui.Bold) | int32(tui.Dim)
		case p == 23:
			s.attr &^= int32(tui.Italic)
		case p == 24:
			s.attr &^= int32(tui.Underline)
		case p == 25:
			s.attr &^= int32(tui.Blink)
		case p == 27:
			s.attr &^= int32(tui.Reverse)
		case p == 29:
			s.attr &^= int32(tui.StrikeThrough)
		case p >= 30 && p <= 37:
			s.fg = int32(p - 30)
		case p >= 40 && p <= 47:
			s.bg = int32(p - 40)
		case p >= 90 && p <= 97:
			s.fg = int32(p - 90 + 8)
		case p >= 100 && p <= 107:
			s.bg = int32(p - 100 + 8)
		case p == 39:
			s.fg = -1
		case p == 49:
			s.bg = -1
		case p == 38 || p == 48:
			var col int32
			if ps[i+1] == 5 {
				col = int32(ps[i+2])
				i += 2
			} else {
				col = int32(1<<24 | ps[i+2]<<16 | ps[i+3]<<8 | ps[i+4])
				i += 4
			}
			if p == 38 {
				s.fg = col
			} else {
				s.bg = col
			}
		}
	}
}

var textBits = []string{"a", "b", "xyz", " ", "é", "日本", "~", "A-B", "12"}
var otherCSI = []string{"\x1b[K", "\x1b[2K", "\x1b[1;2H", "\x1b[?25l", "\x1b(B", "\x1b[3@", "\x0e", "\x0f"}

func (c *chk) grammarCase() {
	cur := defState()
	var carried *fzf.VerifAnsiState
	if st := c.randState(); st != nil {
		carried = st
		cur.fg, cur.bg, cur.attr = st.Fg, st.Bg, st.Attr
	}
	alt := cur
	var wantAlt []tstate
	emptyInList := false
	var in strings.Builder
	var want []tstate // per output rune
	n := 1 + c.rng.Intn(8)
	if c.rng.Intn(40) == 0 {
		n = 30 + c.rng.Intn(300) // long lines: many spans (growth of the span list)
	}
	codes := map[int]bool{}
	endsWithSeq := false
	for i := 0; i < n; i++ {
		switch c.rng.Intn(9) {
		case 0, 1, 2, 3:
			t := textBits[c.rng.Intn(len(textBits))]
			in.WriteString(t)
			for range t {
				want = append(want, cur)
				wantAlt = append(wantAlt, alt)
			}
			endsWithSeq = false
		case 4, 5, 6:
			s, ps, psAlt := c.genSGR()
			in.WriteString(s)
			applySGR(&cur, ps)
			applySGR(&alt, psAlt)
			if len(psAlt) != len(ps) && len(ps) > 1 {
				emptyInList = true
			}
			for _, p := range ps {
				codes[p] = true
			}
			endsWithSeq = true
		case 7:
			in.WriteString(otherCSI[c.rng.Intn(len(otherCSI))])
			endsWithSeq = true
		case 8:
			term := "\x1b\\"
			if c.rng.Intn(2) == 0 {
				term = "\x07"
			}
			if cur.hasURL || c.rng.Intn(3) == 0 {
				in.WriteString("\x1b]8;;" + term)
				cur.hasURL, cur.url = false, ""
				alt.hasURL, alt.url = false, ""
			} else {
				u := fmt.Sprintf("http://h/%d", c.rng.Intn(3))
				in.WriteString("\x1b]8;;" + u + term)
				cur.hasURL, cur.url = true, u
				alt.hasURL, alt.url = true, u
			}
			endsWithSeq = true
		}
	}
	input := in.String()
	vk.SetCase(map[string]any{"input": input})
	trimmed, spans, hasSpans, newState := fzf.VerifExtractColor(input, carried)
	w := map[string]any{"input": input, "input_quoted": fmt.Sprintf("%+q", input), "stripped": trimmed, "carried_state": carried, "spans": spans}
	sigCodes := 0
	for p := range codes {
		sigCodes ^= (p*2654435761 + 7) & 0xfffff
	}
	c.r.Distinct(fmt.Sprintf("g:%x c%v e%v n%d", sigCodes, carried != nil, endsWithSeq, len(spans)))
	if utf8.RuneCountInString(trimmed) != len(want) {
		c.violate("", "stripped text has a different length than the text pieces of the stream", w)
		return
	}
	if !c.wellFormed(trimmed, spans, hasSpans, w) {
		return
	}
	// F19: fzf skips empty SGR parameters where a terminal reads them as 0
	if emptyInList {
		same := len(wantAlt) == utf8.RuneCountInString(trimmed)
		for i := range wantAlt {
			if !same {
				break
			}
			got := defState()
			for _, s := range spans {
				if int32(i) >= s.Begin && int32(i) < s.End {
					got = tstate{fg: s.State.Fg, bg: s.State.Bg, attr: s.State.Attr, url: s.State.URI, hasURL: s.State.HasURL}
				}
			}
			same = got == wantAlt[i]
		}
		gotNext := defState()
		if newState != nil {
			gotNext = tstate{fg: newState.Fg, bg: newState.Bg, attr: newState.Attr, url: newState.URI, hasURL: newState.HasURL}
		}
		differs := gotNext != cur
		for i := range want {
			if want[i] != wantAlt[i] {
				differs = true
			}
		}
		if same && gotNext == alt && differs {
			c.violate("F19-empty-sgr-parameter-skipped", "an empty SGR parameter inside a parameter list is skipped instead of being read as 0 (reset)", w)
			return
		}
	}
	for i, ws := range want {
		got := defState()
		for _, s := range spans {
			if int32(i) >= s.Begin && int32(i) < s.End {
				got = tstate{fg: s.State.Fg, bg: s.State.Bg, attr: s.State.Attr, url: s.State.URI, hasURL: s.State.HasURL}
			}
		}
		c.r.Count("colour_chars_checked", 1)
		if got != ws {
			w["char_index"] = i
			w["expected_state"] = fmt.Sprintf("%+v", ws)
			w["got_state"] = fmt.Sprintf("%+v", got)
			key := ""
			if endsWithSeq && trailingUncoloured(spans, i, len(want)) {
				key = "F14-trailing-sequence-colour-loss"
			}
			c.violate(key, fmt.Sprintf("character %d has state %+v, a terminal shows %+v", i, got, ws), w)
			return
		}
	}
	// carried-over state for the next line
	gotNext := defState()
	if newState != nil {
		gotNext = tstate{fg: newState.Fg, bg: newState.Bg, attr: newState.Attr, url: newState.URI, hasURL: newState.HasURL}
	}
	if gotNext != cur {
		w["expected_state"] = fmt.Sprintf("%+v", cur)
		w["got_state"] = fmt.Sprintf("%+v", gotNext)
		c.violate("", "state carried to the next line differs from the terminal's state at end of line", w)
		return
	}
	if c.rng.Intn(5000) == 0 {
		c.r.Sample(w)
	}
}

// trailingUncoloured: the mismatch lies in the text after the last colour
// change and the last span was left empty (F14).
func trailingUncoloured(spans []fzf.VerifAnsiSpan, i, n int) bool {
	if len(spans) == 0 {
		return false
	}
	last := spans[len(spans)-1]
	return last.Begin == last.End && int32(i) >= last.Begin
}

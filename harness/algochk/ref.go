// Package algochk holds the reference oracles and workloads for the exported
// algo.* matchers (properties C02, C03, C05).
package algochk

import (
	"unicode"

	"github.com/junegunn/fzf/src/algo"
)

// Scheme constants re-derived from the documentation (README / man page / algo.go header):
// match 16, gap start -3, gap extension -1, boundary 8, non-word 8, camel/number 7,
// consecutive 4, first char multiplier 2; white/delimiter boundary bonus per scheme.
type Scheme struct {
	Name          string
	BoundaryWhite int
	BoundaryDelim int
	Delims        string
	InitialClass  int
}

const (
	cWhite = iota
	cNonWord
	cDelim
	cLower
	cUpper
	cLetter
	cNumber
)

var Schemes = []Scheme{
	{"default", 10, 9, "/,:;|", cWhite},
	{"path", 8, 9, "/", cDelim},
	{"history", 8, 8, "/,:;|", cWhite},
}

const whiteASCII = " \t\n\v\f\r"

func (s *Scheme) class(r rune) int {
	if r < 128 {
		switch {
		case r >= 'a' && r <= 'z':
			return cLower
		case r >= 'A' && r <= 'Z':
			return cUpper
		case r >= '0' && r <= '9':
			return cNumber
		}
		for _, w := range whiteASCII {
			if r == w {
				return cWhite
			}
		}
		for _, d := range s.Delims {
			if r == d {
				return cDelim
			}
		}
		return cNonWord
	}
	switch {
	case unicode.IsLower(r):
		return cLower
	case unicode.IsUpper(r):
		return cUpper
	case unicode.IsNumber(r):
		return cNumber
	case unicode.IsLetter(r):
		return cLetter
	case unicode.IsSpace(r):
		return cWhite
	}
	for _, d := range s.Delims {
		if r == d {
			return cDelim
		}
	}
	return cNonWord
}

func (s *Scheme) bonus(prev, cur int) int {
	if cur > cNonWord {
		switch prev {
		case cWhite:
			return s.BoundaryWhite
		case cDelim:
			return s.BoundaryDelim
		case cNonWord:
			return 8
		}
	}
	if prev == cLower && cur == cUpper || prev != cNumber && cur == cNumber {
		return 7
	}
	switch cur {
	case cNonWord, cDelim:
		return 8
	case cWhite:
		return s.BoundaryWhite
	}
	return 0
}

// Bonuses returns the per-position bonus of the original (unfolded) text.
func (s *Scheme) Bonuses(text []rune) []int {
	b := make([]int, len(text))
	prev := s.InitialClass
	for i, r := range text {
		c := s.class(r)
		b[i] = s.bonus(prev, c)
		prev = c
	}
	return b
}

// foldRune is the reference folding: per-rune simple lower-case mapping unless
// case-sensitive, then fzf's accent table when normalising (the table's content
// is trusted, where it is applied is checked).
func foldRune(r rune, caseSensitive, normalize bool) rune {
	if !caseSensitive {
		r = unicode.ToLower(r)
	}
	if normalize {
		r = algo.NormalizeRunes([]rune{r})[0]
	}
	return r
}

func Fold(text []rune, caseSensitive, normalize bool) []rune {
	out := make([]rune, len(text))
	for i, r := range text {
		out[i] = foldRune(r, caseSensitive, normalize)
	}
	return out
}

// IsSubseq reports whether p is a subsequence of t.
func IsSubseq(t, p []rune) bool {
	i := 0
	for _, r := range t {
		if i < len(p) && r == p[i] {
			i++
		}
	}
	return i == len(p)
}

func isWord(r rune) bool { return unicode.IsLetter(r) || unicode.IsNumber(r) }

// Occurrences lists the start offsets of p in t.
func Occurrences(t, p []rune) []int {
	var out []int
	for s := 0; s+len(p) <= len(t); s++ {
		ok := true
		for k := range p {
			if t[s+k] != p[k] {
				ok = false
				break
			}
		}
		if ok {
			out = append(out, s)
		}
	}
	return out
}

// BoundaryOK: neighbours of [s,e) in the original text are non-alphanumeric or line ends.
func BoundaryOK(orig []rune, s, e int) bool {
	if s > 0 && isWord(orig[s-1]) {
		return false
	}
	if e < len(orig) && isWord(orig[e]) {
		return false
	}
	return true
}

func LeadingSpace(t []rune) int {
	n := 0
	for _, r := range t {
		if !unicode.IsSpace(r) {
			break
		}
		n++
	}
	return n
}

func TrailingSpace(t []rune) int {
	n := 0
	for i := len(t) - 1; i >= 0; i-- {
		if !unicode.IsSpace(t[i]) {
			break
		}
		n++
	}
	return n
}

func max2(a, b int) int {
	if a > b {
		return a
	}
	return b
}

// RefV2 evaluates the documented recurrence over the whole line with int
// matrices. Returns (matched, score, end) where end is the column (exclusive)
// of the maximum of the last row: the first maximum when forward, the last
// otherwise.
func RefV2(s *Scheme, orig []rune, folded []rune, pat []rune, forward bool) (bool, int, int) {
	N, M := len(folded), len(pat)
	if M == 0 {
		return true, 0, 0
	}
	if !IsSubseq(folded, pat) {
		return false, 0, -1
	}
	B := s.Bonuses(orig)
	// first feasible column per row
	F := make([]int, M)
	{
		i := 0
		for j := 0; j < N && i < M; j++ {
			if folded[j] == pat[i] {
				F[i] = j
				i++
			}
		}
	}
	H := make([][]int, M)
	C := make([][]int, M)
	for i := range H {
		H[i] = make([]int, N)
		C[i] = make([]int, N)
	}
	// row 0
	prev, inGap := 0, false
	for j := 0; j < N; j++ {
		if folded[j] == pat[0] {
			H[0][j] = 16 + 2*B[j]
			C[0][j] = 1
			inGap = false
		} else {
			if inGap {
				H[0][j] = max2(prev-1, 0)
			} else {
				H[0][j] = max2(prev-3, 0)
			}
			inGap = true
		}
		prev = H[0][j]
	}
	for i := 1; i < M; i++ {
		inGap := false
		for j := F[i]; j < N; j++ {
			left := 0
			if j > F[i] {
				left = H[i][j-1]
			}
			var s1, s2, cons int
			if inGap {
				s2 = left - 1
			} else {
				s2 = left - 3
			}
			if folded[j] == pat[i] {
				s1 = H[i-1][j-1] + 16
				b := B[j]
				cons = C[i-1][j-1] + 1
				if cons > 1 {
					fb := B[j-cons+1]
					if b >= 8 && b > fb {
						cons = 1
					} else {
						b = max2(b, max2(4, fb))
					}
				}
				if s1+b < s2 {
					s1 += B[j]
					cons = 0
				} else {
					s1 += b
				}
			}
			C[i][j] = cons
			inGap = s1 < s2
			H[i][j] = max2(max2(s1, s2), 0)
		}
	}
	best, bestPos := 0, 0
	if M == 1 {
		for j := 0; j < N; j++ {
			if folded[j] != pat[0] {
				continue
			}
			sc := H[0][j]
			if forward && sc > best || !forward && sc >= best {
				best, bestPos = sc, j
			}
		}
		return true, best, bestPos + 1
	}
	for j := F[M-1]; j < N; j++ {
		sc := H[M-1][j]
		if forward && sc > best || !forward && sc >= best {
			best, bestPos = sc, j
		}
	}
	return true, best, bestPos + 1
}

// PathScore evaluates one embedding with the local rules (used as an upper
// bound: every DP cell is the value of some path, ties only lose). floor=true
// clamps the running score at 0 after every gap step as the DP does.
func PathScore(B []int, pos []int, floor bool) int {
	score := 0
	first := 0
	for k, p := range pos {
		if k == 0 {
			score = 16 + 2*B[p]
			first = B[p]
			continue
		}
		gap := p - pos[k-1] - 1
		if gap == 0 {
			b := B[p]
			if b >= 8 && b > first {
				first = b
			} else {
				b = max2(b, max2(4, first))
			}
			score += 16 + b
		} else {
			score += -3 - (gap - 1)
			if floor && score < 0 {
				score = 0
			}
			score += 16 + B[p]
			first = B[p]
		}
	}
	return score
}

// BestPath enumerates every embedding of pat in folded (short inputs only).
func BestPath(B []int, folded, pat []rune) (int, bool) {
	best, found := 0, false
	pos := make([]int, len(pat))
	var rec func(i, from int)
	rec = func(i, from int) {
		if i == len(pat) {
			sc := PathScore(B, pos, true)
			if !found || sc > best {
				best, found = sc, true
			}
			return
		}
		for j := from; j < len(folded); j++ {
			if folded[j] == pat[i] {
				pos[i] = j
				rec(i+1, j+1)
			}
		}
	}
	rec(0, 0)
	return best, found
}

// GreedyLinear scores the left-most greedy embedding of pat inside [s,e) with
// the linear rules (no floor); this is how V1 and the exact family are scored.
func GreedyLinear(B []int, folded, pat []rune, s, e int) (int, []int, bool) {
	score, pi, inGap, cons, first := 0, 0, false, 0, 0
	var pos []int
	for j := s; j < e; j++ {
		if pi < len(pat) && folded[j] == pat[pi] {
			pos = append(pos, j)
			score += 16
			b := B[j]
			if cons == 0 {
				first = b
			} else {
				if b >= 8 && b > first {
					first = b
				}
				b = max2(max2(b, first), 4)
			}
			if pi == 0 {
				score += 2 * b
			} else {
				score += b
			}
			inGap = false
			cons++
			pi++
		} else {
			if inGap {
				score--
			} else {
				score -= 3
			}
			inGap = true
			cons = 0
			first = 0
		}
	}
	return score, pos, pi == len(pat)
}
